//go:build verif

package loadaware

// C18 monitor: low-node-load balancing. A real LowNodeLoad (built by NewLowNodeLoad over a fake
// handle) is run for 1-10 successive Balance rounds over generated clusters; a recording evictor
// with scripted refusals observes every Evict(pod). After each round the monitor recomputes the
// usage/threshold table from the NodeMetric objects, the pod lists and the pool configuration and
// checks every Evict call against the statement. See /verif/DESIGN.md section 4, C18.
//
// Oracle conventions (all from the statement, none from the implementation): "above the high
// threshold" is strict; a node exactly on a low threshold counts as under it; an unschedulable node
// cannot receive load; an eviction is accepted if EITHER the whole-node or the prod pass justifies
// it (node over in that pass' running estimate, another node under that pass' low thresholds,
// that pass' headroom positive); unmeasured rounds neither extend nor break an over-threshold
// streak; only Evict calls are judged (an over-loaded node that is not relieved is counted as
// converse_misses_*, never a verdict). Signature suffixes .../on-threshold,
// .../on-threshold-float-truncated, .../pod-count-ignores-metricless-evictions and
// .../after-interrupted-streak are facts of the inputs that narrow a signature; they never change
// what is a violation. .../deviation-threshold-float (the recorded known finding) is attributed only
// when the very Evict call is fully justified once the pool's deviation thresholds of this and all
// earlier rounds are recomputed the way the code does, in float64 (every summation order up to 4
// nodes, else a dozen orders plus the two ends of the interval reordering can reach; the code sums
// in Go map order, so its own result - and the replay of such a case - is not deterministic).
// An anomaly that a qualifying run opened and that is kept open across measured
// not-over rounds is counted (anomaly_open_kept_across_not_over_round), not asserted.
//
// Causal rules of the generator (what the real system can produce):
//   * a NodeMetric reports NodeUsage = SystemUsage + sum of PodsMetric usages (no host applications);
//     all usages are whole milli-CPU / bytes and never exceed the node's allocatable;
//   * a pod that was evicted successfully in round k is gone from the pod list and from the metrics
//     of every later round; pods keep their node; new pods may appear between rounds;
//   * a pod may have no entry in PodsMetric (new pod) and a NodeMetric may contain an entry of a pod
//     that is no longer listed (metric lag); a NodeMetric may be missing, have no status, or be stale;
//   * fresh metrics are stamped "now", stale ones one hour ago (expiration 180 s): no decision is
//     taken near a deadline; detector cache timeout and anomaly timeout are one hour, so no detector
//     state expires during a case (rounds follow each other faster than every timeout);
//   * node pools select disjoint node sets; every pod carries a koordinator priority class, by label or by
//     a spec.priority inside a documented band; terminated pods report no usage;
//   * an amplified node carries amplified cpu and/or memory in its status and the un-amplified cpu AND
//     memory (never pods) in its raw-allocatable annotation, as the node webhook writes it.

import (
	"context"
	"encoding/json"
	"fmt"
	"math/big"
	"sort"
	"strconv"
	"strings"
	"testing"
	"time"

	corev1 "k8s.io/api/core/v1"
	"k8s.io/apimachinery/pkg/api/resource"
	metav1 "k8s.io/apimachinery/pkg/apis/meta/v1"
	"k8s.io/client-go/tools/cache"
	"k8s.io/klog/v2"

	apiext "github.com/koordinator-sh/koordinator/apis/extension"
	slov1alpha1 "github.com/koordinator-sh/koordinator/apis/slo/v1alpha1"
	koordfake "github.com/koordinator-sh/koordinator/pkg/client/clientset/versioned/fake"
	koordslolisters "github.com/koordinator-sh/koordinator/pkg/client/listers/slo/v1alpha1"
	deschedulerconfig "github.com/koordinator-sh/koordinator/pkg/descheduler/apis/config"
	"github.com/koordinator-sh/koordinator/pkg/descheduler/framework"
	"github.com/koordinator-sh/koordinator/pkg/descheduler/test"
	kit "github.com/koordinator-sh/koordinator/pkg/verifkit"
)

func init() {
	klog.SetOutput(c18Discard{})
	klog.LogToStderr(false)
}

type c18Discard struct{}

func (c18Discard) Write(p []byte) (int, error) { return len(p), nil }

const (
	c18PoolLabel     = "c18/pool"
	c18AnnoFilter    = "c18/filter-until"
	c18AnnoRefuse    = "c18/refuse"
	c18PodSelLabel   = "c18/sel"
	c18TaintKey      = "c18/taint"
	c18PassNode      = 0
	c18PassProd      = 1
	c18RoleOver      = 0
	c18RoleUnder     = 1
	c18RoleMid       = 2
	c18MetricFresh   = 0
	c18MetricMissing = 1
	c18MetricNoInfo  = 2
	c18MetricNoTime  = 3
	c18MetricStale   = 4
)

var (
	c18Res       = []corev1.ResourceName{corev1.ResourceCPU, corev1.ResourceMemory, corev1.ResourcePods}
	c18PassName  = []string{"node", "prod"}
	c18StateName = []string{"fresh", "missing", "no-status", "no-update-time", "stale"}
	c18Clientset = koordfake.NewSimpleClientset()
)

// ---------------------------------------------------------------------------------------------
// world

type c18Pod struct {
	name, node  string
	ns          string
	prod        bool
	terminated  bool // phase Succeeded/Failed: listed by the pod index, not running, reports no usage
	filterUntil int  // -1 always passes the evictor's filter, k >= 0: passes only while fewer than k Evict calls were made this round
	refuse      bool
	obj         *corev1.Pod
	hasMetric   bool
	m           map[corev1.ResourceName]int64 // reported usage this round (cpu milli, memory bytes)
}

type c18Node struct {
	name, pool  string
	alloc       map[corev1.ResourceName]int64
	obj         *corev1.Node
	role        [2]int
	metricState int
	nm          *slov1alpha1.NodeMetric
	// oracle bookkeeping over rounds
	streak           int  // consecutive measured rounds (this one included) in which the node was over a high threshold
	overBeforeGap    bool // was over in an earlier round that is not part of the current streak
	maxRunBefore     int  // longest completed earlier run of consecutive over-threshold rounds
	evictedEarlier   bool // an Evict call was made for a pod of this node in an earlier round
	truncOnThreshold bool // in an earlier round of the current history the node sat exactly on a high threshold that the shipped float formula truncates
	devOnThreshold   bool // in an earlier round the node sat on / less than one unit under an exact deviation high threshold without being over it
	bridgedUnmeasure bool
}

type c18PoolCfg struct {
	name     string
	selector string // "" = no selector
	dev      bool
	pct      [2][2]map[corev1.ResourceName]int // [pass][0 low,1 high][resource] -> percentage (absolute) or deviation, whole part
	qtr      [2][2]map[corev1.ResourceName]int // quarters of a percent added to pct (0..3); thresholds may be fractional
	exprSel  bool                              // the node selector is written with matchExpressions
	anomaly  *deschedulerconfig.LoadAnomalyCondition
	need     int
	base     map[corev1.ResourceName]int // deviation mode: per-round aim of the mean, generator only
}

func (p *c18PoolCfg) res(pass int) []corev1.ResourceName {
	var out []corev1.ResourceName
	for _, r := range c18Res {
		if _, ok := p.pct[pass][0][r]; ok {
			out = append(out, r)
		}
	}
	return out
}

func (p *c18Pod) key() string { return p.ns + "/" + p.name }

// rat / flt: the configured percentage (whole part + quarters).
func (p *c18PoolCfg) rat(pass, which int, res corev1.ResourceName) *big.Rat {
	return big.NewRat(int64(4*p.pct[pass][which][res]+p.qtr[pass][which][res]), 4)
}

func (p *c18PoolCfg) flt(pass, which int, res corev1.ResourceName) float64 {
	return float64(p.pct[pass][which][res]) + float64(p.qtr[pass][which][res])/4
}

// c18Floor: the largest whole usage that is not above pct percent of alloc.
func c18Floor(pct *big.Rat, alloc int64) int64 {
	v := new(big.Rat).Mul(pct, big.NewRat(alloc, 100))
	if v.Sign() < 0 {
		return 0
	}
	return new(big.Int).Quo(v.Num(), v.Denom()).Int64()
}

type c18Event struct {
	pod, node   string // pod = namespace/name
	callsBefore int
	ok          bool
	reason      string
}

type c18World struct {
	c      *kit.Case
	nodes  []*c18Node
	pods   []*c18Pod          // live pods in creation order
	byName map[string]*c18Pod // by namespace/name
	// evictor state of the running round
	calls, okCount, okLimit int
	filterCalls             int
	events                  []c18Event
	nextPod                 int
	hist                    [][]*c18Table // per round the pools' tables (the measured usages in them are never modified)
}

func (w *c18World) podsAssignedToNode(nodeName string, filter framework.FilterFunc) ([]*corev1.Pod, error) {
	out := make([]*corev1.Pod, 0)
	for _, p := range w.pods {
		if p.node == nodeName && (filter == nil || filter(p.obj)) {
			out = append(out, p.obj)
		}
	}
	return out, nil
}

// evictor (framework.Evictor): scripted by the pod's annotations, records every Evict call.
type c18Evictor struct{ w *c18World }

func c18FilterPasses(pod *corev1.Pod, evictCalls int) bool {
	k, err := strconv.Atoi(pod.Annotations[c18AnnoFilter])
	if err != nil || k < 0 {
		return true
	}
	return evictCalls < k
}

func (e *c18Evictor) Filter(pod *corev1.Pod) bool {
	e.w.filterCalls++
	return c18FilterPasses(pod, e.w.calls)
}

func (e *c18Evictor) PreEvictionFilter(pod *corev1.Pod) bool { return true }

func (e *c18Evictor) Evict(ctx context.Context, pod *corev1.Pod, opts framework.EvictOptions) bool {
	w := e.w
	ok := pod.Annotations[c18AnnoRefuse] != "true" && w.okCount < w.okLimit
	w.events = append(w.events, c18Event{pod: pod.Namespace + "/" + pod.Name, node: pod.Spec.NodeName, callsBefore: w.calls, ok: ok, reason: opts.Reason})
	w.calls++
	if ok {
		w.okCount++
	}
	return ok
}

type c18Handle struct {
	framework.Handle
	w *c18World
}

func (h *c18Handle) Evictor() framework.Evictor { return &c18Evictor{w: h.w} }
func (h *c18Handle) GetPodsAssignedToNodeFunc() framework.GetPodsAssignedToNodeFunc {
	return h.w.podsAssignedToNode
}

// ---------------------------------------------------------------------------------------------
// generation

func c18PickPct(r *kit.Rand, lo, hi int) int {
	if lo > hi {
		lo = hi
	}
	if r.Pct(25) {
		// percentages whose product with 0.01 is not exactly representable below the true value
		var cand []int
		for _, v := range []int{29, 58} {
			if v >= lo && v <= hi {
				cand = append(cand, v)
			}
		}
		if len(cand) > 0 {
			return kit.Pick(r, cand)
		}
	}
	return r.Range(lo, hi)
}

func c18GenPool(r *kit.Rand, name, selector string) *c18PoolCfg {
	p := &c18PoolCfg{name: name, selector: selector, dev: r.Pct(35)}
	for pass := 0; pass < 2; pass++ {
		p.pct[pass][0] = map[corev1.ResourceName]int{}
		p.pct[pass][1] = map[corev1.ResourceName]int{}
		p.qtr[pass][0] = map[corev1.ResourceName]int{}
		p.qtr[pass][1] = map[corev1.ResourceName]int{}
	}
	nodeRes := map[corev1.ResourceName]bool{corev1.ResourceCPU: r.Pct(85), corev1.ResourceMemory: r.Pct(55), corev1.ResourcePods: r.Pct(25)}
	prodOn := r.Pct(45)
	prodRes := map[corev1.ResourceName]bool{corev1.ResourceCPU: prodOn && r.Pct(80), corev1.ResourceMemory: prodOn && r.Pct(50), corev1.ResourcePods: prodOn && r.Pct(10)}
	for _, res := range c18Res {
		if nodeRes[res] {
			var lo, hi int
			switch {
			case p.dev && res == corev1.ResourcePods:
				lo = r.Range(1, 2)
				hi = r.Range(lo, 4)
			case p.dev:
				lo = r.Range(1, 15)
				hi = r.Range(lo, 20)
			case res == corev1.ResourcePods:
				hi = r.Range(3, 12)
				lo = r.Range(2, hi)
			default:
				hi = c18PickPct(r, 20, 90)
				switch r.Intn(6) {
				case 0:
					lo = hi
				case 1:
					lo = hi - 1
				default:
					lo = c18PickPct(r, 5, hi)
				}
			}
			p.pct[c18PassNode][0][res], p.pct[c18PassNode][1][res] = lo, hi
		}
		if prodRes[res] {
			maxHi := 90
			if p.dev {
				maxHi = 20
			}
			if res == corev1.ResourcePods {
				maxHi = 12
				if p.dev {
					maxHi = 4
				}
			}
			if h, ok := p.pct[c18PassNode][1][res]; ok {
				maxHi = h // validation: prodHigh <= high
			}
			minHi := 10
			if p.dev || res == corev1.ResourcePods {
				minHi = 1
			}
			if minHi > maxHi {
				minHi = maxHi
			}
			hi := c18PickPct(r, minHi, maxHi)
			lo := c18PickPct(r, 1, hi)
			if r.Pct(15) {
				lo = hi
			}
			p.pct[c18PassProd][0][res], p.pct[c18PassProd][1][res] = lo, hi
		}
	}
	// rare end points of the absolute scale: a high threshold of 100 % (nothing can be above it) and a
	// low threshold of 0 % (only an idle node is under it). Deviation 0 means "resource disabled" to the
	// code and is never generated.
	if !p.dev {
		for _, res := range []corev1.ResourceName{corev1.ResourceCPU, corev1.ResourceMemory} {
			if _, ok := p.pct[c18PassNode][0][res]; ok && r.Pct(4) {
				p.pct[c18PassNode][1][res] = 100
			}
			if _, ok := p.pct[c18PassNode][0][res]; ok && r.Pct(3) {
				p.pct[c18PassNode][0][res] = 0
			}
		}
	}
	// fractional percentages (quarters), keeping low <= high and prodHigh <= high as the validation demands
	if r.Pct(14) {
		for pass := 0; pass < 2; pass++ {
			for _, res := range p.res(pass) {
				lo, hi := r.Intn(4), r.Intn(4)
				if p.pct[pass][0][res] == p.pct[pass][1][res] && lo > hi {
					lo, hi = hi, lo
				}
				if p.pct[pass][1][res] >= 100 {
					hi = 0
					if p.pct[pass][0][res] >= 100 {
						lo = 0
					}
				}
				if pass == c18PassProd {
					if nh, ok := p.pct[c18PassNode][1][res]; ok && nh == p.pct[pass][1][res] && hi > p.qtr[c18PassNode][1][res] {
						hi = p.qtr[c18PassNode][1][res]
						if p.pct[pass][0][res] == p.pct[pass][1][res] && lo > hi {
							lo = hi
						}
					}
				}
				p.qtr[pass][0][res], p.qtr[pass][1][res] = lo, hi
			}
		}
	}
	// need: the configured number of consecutive over-threshold rounds (1 when no condition is set);
	// 5 abnormalities / 3 normalities are the shipped defaults
	p.need = []int{1, 1, 2, 3, 4, 5}[r.Weighted(10, 33, 30, 17, 5, 5)]
	if p.need > 1 || r.Pct(78) {
		p.anomaly = &deschedulerconfig.LoadAnomalyCondition{
			Timeout:                  metav1.Duration{Duration: time.Hour},
			ConsecutiveAbnormalities: uint32(p.need),
			ConsecutiveNormalities:   uint32([]int{1, 2, 3, 4, 5}[r.Weighted(30, 30, 30, 5, 5)]),
		}
	}
	p.exprSel = selector != "" && r.Pct(30)
	return p
}

func (p *c18PoolCfg) thresholds(pass, which int) deschedulerconfig.ResourceThresholds {
	if len(p.pct[pass][which]) == 0 {
		return nil
	}
	out := deschedulerconfig.ResourceThresholds{}
	for _, res := range c18Res {
		if v, ok := p.pct[pass][which][res]; ok {
			_ = v
			out[res] = deschedulerconfig.Percentage(p.flt(pass, which, res))
		}
	}
	return out
}

func (p *c18PoolCfg) String() string {
	s := fmt.Sprintf("pool %s selector=%q deviation=%v need=%d", p.name, p.selector, p.dev, p.need)
	if p.anomaly == nil {
		s += " anomaly=nil"
	} else {
		s += fmt.Sprintf(" anomaly={abn:%d norm:%d}", p.anomaly.ConsecutiveAbnormalities, p.anomaly.ConsecutiveNormalities)
	}
	for pass := 0; pass < 2; pass++ {
		for _, res := range p.res(pass) {
			s += fmt.Sprintf(" %s.%s=%v..%v", c18PassName[pass], res, p.flt(pass, 0, res), p.flt(pass, 1, res))
		}
	}
	return s
}

func c18Clamp(v, lo, hi int64) int64 {
	if v < lo {
		return lo
	}
	if v > hi {
		return hi
	}
	return v
}

// c18Place draws a usage for one resource relative to the (aimed) low/high thresholds tl <= th.
func c18Place(r *kit.Rand, role int, tl, th, alloc int64) int64 {
	one := alloc / 100
	var v int64
	switch role {
	case c18RoleUnder:
		switch r.Intn(4) {
		case 0:
			v = tl
		case 1:
			v = tl - 1
		case 2:
			v = tl - one
		default:
			v = r.Int63n(tl + 1)
		}
	case c18RoleMid:
		if tl >= th {
			v = tl
			break
		}
		switch r.Intn(4) {
		case 0:
			v = tl + 1
		case 1:
			v = th
		case 2:
			v = th - 1
		default:
			v = tl + 1 + r.Int63n(th-tl)
		}
		if v <= tl {
			v = tl + 1
		}
	default:
		if th >= alloc {
			v = alloc
			break
		}
		switch r.Intn(4) {
		case 0:
			v = th + 1
		case 1:
			v = th + one
		case 2:
			v = th + 1 + r.Int63n(alloc-th)
		default:
			v = th + 1 + r.Int63n((alloc-th+3)/4)
		}
	}
	return c18Clamp(v, 0, alloc)
}

// c18Split cuts total into k non-negative parts.
func c18Split(r *kit.Rand, total int64, k int) []int64 {
	if k == 0 {
		return nil
	}
	cuts := make([]int64, 0, k+1)
	cuts = append(cuts, 0)
	for i := 0; i < k-1; i++ {
		cuts = append(cuts, r.Int63n(total+1))
	}
	cuts = append(cuts, total)
	sort.Slice(cuts, func(i, j int) bool { return cuts[i] < cuts[j] })
	out := make([]int64, k)
	for i := 0; i < k; i++ {
		out[i] = cuts[i+1] - cuts[i]
	}
	return out
}

func (w *c18World) addPod(r *kit.Rand, n *c18Node) {
	p := &c18Pod{name: fmt.Sprintf("p%d", w.nextPod), node: n.name, ns: "default", refuse: r.Pct(12)}
	w.nextPod++
	if r.Pct(20) {
		p.ns = "ns2"
	}
	if r.Pct(8) {
		// same pod name in the other namespace as a pod that already lives on this node
		for _, q := range w.pods {
			other := map[string]string{"default": "ns2", "ns2": "default"}[q.ns]
			if q.node == n.name && w.byName[other+"/"+q.name] == nil {
				p.name, p.ns = q.name, other
				break
			}
		}
	}
	p.filterUntil = []int{-1, 0, 1, 2}[r.Weighted(70, 15, 8, 7)]
	p.terminated = r.Pct(4)
	reqCPU := int64(r.Range(0, 50))
	reqMem := int64(r.Range(0, 200))
	if r.Pct(5) {
		reqCPU = n.alloc[corev1.ResourceCPU] // does not fit anywhere else
	}
	// priority class: the koordinator label, or (without label) spec.priority inside a documented band;
	// a label overrides a conflicting spec.priority
	label, prio := "", int32(0)
	switch r.Weighted(40, 35, 6, 4, 6, 5, 2, 2) {
	case 0:
		label, p.prod = string(apiext.PriorityProd), true
	case 1:
		label = string(apiext.PriorityBatch)
	case 2:
		label = string(apiext.PriorityMid)
	case 3:
		label = string(apiext.PriorityFree)
	case 4:
		prio, p.prod = int32(r.Range(int(apiext.PriorityProdValueMin), int(apiext.PriorityProdValueMax))), true
	case 5:
		prio = int32(r.Range(int(apiext.PriorityBatchValueMin), int(apiext.PriorityBatchValueMax)))
	case 6:
		label, prio = string(apiext.PriorityBatch), 9500
	default:
		label, prio, p.prod = string(apiext.PriorityProd), 5500, true
	}
	p.obj = test.BuildTestPod(p.name, reqCPU, reqMem, n.name, func(pod *corev1.Pod) {
		pod.Namespace = p.ns
		pod.Labels = map[string]string{}
		if label != "" {
			pod.Labels[apiext.LabelPodPriorityClass] = label
		}
		if prio != 0 {
			pod.Spec.Priority = &prio
		}
		if r.Pct(70) {
			pod.Labels[c18PodSelLabel] = "y"
		}
		if r.Pct(20) {
			pod.Spec.Tolerations = []corev1.Toleration{{Key: c18TaintKey, Operator: corev1.TolerationOpExists}}
		}
		pod.Annotations = map[string]string{c18AnnoFilter: strconv.Itoa(p.filterUntil), c18AnnoRefuse: strconv.FormatBool(p.refuse)}
		pod.Status.Phase = corev1.PodRunning
		if p.terminated {
			pod.Status.Phase = kit.Pick(r, []corev1.PodPhase{corev1.PodSucceeded, corev1.PodFailed})
		}
	})
	w.pods = append(w.pods, p)
	w.byName[p.key()] = p
	other := map[string]string{"default": "ns2", "ns2": "default"}[p.ns]
	if w.byName[other+"/"+p.name] != nil {
		w.c.Count("pods_same_name_in_two_namespaces", 1)
	}
	if p.terminated {
		w.c.Count("terminated_pods", 1)
	}
	if label == "" {
		w.c.Count("pods_classified_by_priority_value", 1)
	}
}

func (w *c18World) livePods(node string) []*c18Pod {
	var out []*c18Pod
	for _, p := range w.pods {
		if p.node == node {
			out = append(out, p)
		}
	}
	return out
}

// genMetrics draws this round's usages for one node and builds its NodeMetric object.
func (w *c18World) genMetrics(r *kit.Rand, n *c18Node, pool *c18PoolCfg) {
	pods := w.livePods(n.name)
	var prodM, otherM []*c18Pod
	for _, p := range pods {
		p.hasMetric = r.Pct(80) && !p.terminated
		p.m = nil
		if p.hasMetric {
			p.m = map[corev1.ResourceName]int64{}
			if p.prod {
				prodM = append(prodM, p)
			} else {
				otherM = append(otherM, p)
			}
		}
	}
	ghost := r.Pct(5)
	sys := map[corev1.ResourceName]int64{}
	ghostM := map[corev1.ResourceName]int64{}
	for _, res := range []corev1.ResourceName{corev1.ResourceCPU, corev1.ResourceMemory} {
		alloc := n.alloc[res]
		aim := func(pass int, role int, overThis bool) int64 {
			if pool == nil {
				return r.Int63n(alloc + 1)
			}
			if _, ok := pool.pct[pass][0][res]; !ok {
				return r.Int63n(alloc + 1)
			}
			lo, hi := pool.rat(pass, 0, res), pool.rat(pass, 1, res)
			if pool.dev {
				base := new(big.Rat).SetInt64(int64(pool.base[res]))
				lo, hi = new(big.Rat).Sub(base, lo), new(big.Rat).Add(base, hi)
			}
			hundred := big.NewRat(100, 1)
			if lo.Cmp(hundred) > 0 {
				lo = hundred
			}
			if hi.Cmp(hundred) > 0 {
				hi = hundred
			}
			tl, th := c18Floor(lo, alloc), c18Floor(hi, alloc)
			if role == c18RoleOver && !overThis {
				role = kit.Pick(r, []int{c18RoleUnder, c18RoleMid})
			}
			v := c18Place(r, role, tl, th, alloc)
			if pass == c18PassNode && role == c18RoleOver && r.Pct(8) {
				// usage above the allocatable (allocatable = capacity - reserved), only for a resource that
				// has a whole-node threshold: an unthresholded resource must not decide anything
				v = alloc + r.Int63n(alloc/10+1)
			}
			return v
		}
		total := aim(c18PassNode, n.role[c18PassNode], r.Pct(65))
		up := aim(c18PassProd, n.role[c18PassProd], r.Pct(65))
		if up > total {
			if r.Bool() {
				up = total
			} else {
				total = up
			}
		}
		if len(prodM) == 0 {
			up = 0
		}
		parts := c18Split(r, up, len(prodM))
		for i, p := range prodM {
			p.m[res] = parts[i]
		}
		nOther := len(otherM)
		if ghost {
			nOther++
		}
		var wsum int64
		if nOther > 0 {
			wsum = r.Int63n(total - up + 1)
			if r.Pct(30) {
				wsum = total - up // no system usage at all
			}
		}
		parts = c18Split(r, wsum, nOther)
		for i, p := range otherM {
			p.m[res] = parts[i]
		}
		if ghost {
			ghostM[res] = parts[nOther-1]
		}
		sys[res] = total - up - wsum
		// aim at a landing exactly on the high threshold after one eviction
		if pool != nil && !pool.dev && n.role[c18PassNode] == c18RoleOver && len(prodM)+len(otherM) > 0 && r.Pct(35) {
			if _, ok := pool.pct[c18PassNode][1][res]; ok {
				th := c18Floor(pool.rat(c18PassNode, 1, res), alloc)
				cand := append(append([]*c18Pod{}, prodM...), otherM...)
				pj := kit.Pick(r, cand)
				want := th + pj.m[res]
				if pj.m[res] > 0 && want <= alloc && want-up-wsum >= 0 {
					sys[res] = want - up - wsum
				}
			}
		}
	}
	if r.Pct(6) {
		// a pod that reports only one of the two resources
		for _, p := range pods {
			if p.hasMetric && r.Pct(30) {
				delete(p.m, corev1.ResourceMemory)
			}
		}
	}
	n.metricState = []int{c18MetricFresh, c18MetricMissing, c18MetricNoInfo, c18MetricNoTime, c18MetricStale}[r.Weighted(86, 4, 3, 3, 4)]
	n.nm = nil
	if n.metricState == c18MetricMissing {
		return
	}
	nm := &slov1alpha1.NodeMetric{ObjectMeta: metav1.ObjectMeta{Name: n.name}}
	switch n.metricState {
	case c18MetricFresh, c18MetricNoInfo:
		nm.Status.UpdateTime = &metav1.Time{Time: time.Now()}
	case c18MetricStale:
		nm.Status.UpdateTime = &metav1.Time{Time: time.Now().Add(-time.Hour)}
	}
	omitZero := r.Pct(10)
	rl := func(m map[corev1.ResourceName]int64) corev1.ResourceList {
		out := corev1.ResourceList{}
		if v, ok := m[corev1.ResourceCPU]; ok && !(omitZero && v == 0) {
			out[corev1.ResourceCPU] = *resource.NewMilliQuantity(v, resource.DecimalSI)
		}
		if v, ok := m[corev1.ResourceMemory]; ok && !(omitZero && v == 0) {
			out[corev1.ResourceMemory] = *resource.NewQuantity(v, resource.BinarySI)
		}
		return out
	}
	tot := map[corev1.ResourceName]int64{corev1.ResourceCPU: sys[corev1.ResourceCPU], corev1.ResourceMemory: sys[corev1.ResourceMemory]}
	for _, p := range pods {
		if !p.hasMetric {
			continue
		}
		for res, v := range p.m {
			tot[res] += v
		}
		nm.Status.PodsMetric = append(nm.Status.PodsMetric, &slov1alpha1.PodMetricInfo{Namespace: p.ns, Name: p.name, PodUsage: slov1alpha1.ResourceMap{ResourceList: rl(p.m)}})
	}
	if ghost {
		for res, v := range ghostM {
			tot[res] += v
		}
		nm.Status.PodsMetric = append(nm.Status.PodsMetric, &slov1alpha1.PodMetricInfo{Namespace: "default", Name: "gone-" + n.name, PodUsage: slov1alpha1.ResourceMap{ResourceList: rl(ghostM)}})
	}
	if n.metricState != c18MetricNoInfo {
		nm.Status.NodeMetric = &slov1alpha1.NodeMetricInfo{
			NodeUsage:   slov1alpha1.ResourceMap{ResourceList: rl(tot)},
			SystemUsage: slov1alpha1.ResourceMap{ResourceList: rl(sys)},
		}
	}
	n.nm = nm
}

// devBoundary moves one measured node of a deviation-threshold pool onto the boundary of its own
// deviation threshold. With N measured nodes, capacity c and S = sum of used/capacity over the OTHER
// nodes, node k is above mean+d % exactly when u > u* = c*(S + N*d/100)/(N-1), and under mean-d % exactly
// when u <= c*(S - N*d/100)/(N-1) (the node's own usage moves the mean). Where capacities allow it the
// other nodes are first snapped to whole percentages chosen so that u* is a whole amount: the node then
// sits exactly on mean+d. Only the system usage is edited, so NodeUsage = system + pods still holds.
func (w *c18World) devBoundary(r *kit.Rand, pool *c18PoolCfg, round int) {
	var cand []corev1.ResourceName
	for _, res := range []corev1.ResourceName{corev1.ResourceCPU, corev1.ResourceMemory} {
		if _, ok := pool.pct[c18PassNode][0][res]; ok {
			cand = append(cand, res)
		}
	}
	var ms []*c18Node
	for _, n := range w.nodes {
		if (pool.selector == "" || pool.selector == n.pool) && n.metricState == c18MetricFresh && n.nm != nil && n.nm.Status.NodeMetric != nil {
			ms = append(ms, n)
		}
	}
	if len(cand) == 0 || len(ms) < 2 {
		return
	}
	res := kit.Pick(r, cand)
	N := int64(len(ms))
	used := func(n *c18Node) int64 { return c18QVal(res, n.nm.Status.NodeMetric.NodeUsage.ResourceList) }
	sysOf := func(n *c18Node) int64 { return c18QVal(res, n.nm.Status.NodeMetric.SystemUsage.ResourceList) }
	set := func(n *c18Node, total int64) bool {
		sys := sysOf(n) + total - used(n)
		if sys < 0 || total > n.alloc[res] {
			return false
		}
		q := func(v int64) resource.Quantity {
			if res == corev1.ResourceCPU {
				return *resource.NewMilliQuantity(v, resource.DecimalSI)
			}
			return *resource.NewQuantity(v, resource.BinarySI)
		}
		if n.nm.Status.NodeMetric.SystemUsage.ResourceList == nil {
			n.nm.Status.NodeMetric.SystemUsage.ResourceList = corev1.ResourceList{}
		}
		if n.nm.Status.NodeMetric.NodeUsage.ResourceList == nil {
			n.nm.Status.NodeMetric.NodeUsage.ResourceList = corev1.ResourceList{}
		}
		n.nm.Status.NodeMetric.SystemUsage.ResourceList[res] = q(sys)
		n.nm.Status.NodeMetric.NodeUsage.ResourceList[res] = q(total)
		return true
	}
	ki := r.Intn(len(ms))
	high := r.Pct(70)
	if high && r.Pct(70) {
		// prefer a node that has something to evict and that tends to be over (sticky role)
		var pref []int
		for i, n := range ms {
			for _, p := range w.livePods(n.name) {
				if p.filterUntil < 0 && !p.refuse && !p.terminated && n.role[c18PassNode] == c18RoleOver {
					pref = append(pref, i)
					break
				}
			}
		}
		if len(pref) > 0 {
			ki = kit.Pick(r, pref)
		}
	}
	k := ms[ki]
	which := 0
	if high {
		which = 1
	}
	d := pool.rat(c18PassNode, which, res) // deviation in percent
	exact := true
	for _, n := range ms {
		if n.alloc[res]%100 != 0 {
			exact = false
		}
	}
	steered := false
	homog := true
	for _, n := range ms {
		if n.alloc[res] != k.alloc[res] {
			homog = false
		}
	}
	if nd := new(big.Rat).Mul(big.NewRat(N*k.alloc[res], 100), d); homog && nd.IsInt() && r.Pct(80) {
		// equal capacities c: u* = (sum of the others' usages +- N*d*c/100)/(N-1) is a whole amount as soon as
		// the numerator is divisible by N-1 - any usages will do, shift one of them by less than N-1 units
		sum := nd.Num().Int64()
		if !high {
			sum = -sum
		}
		for i, n := range ms {
			if i != ki {
				sum += used(n)
			}
		}
		if rem := (sum%(N-1) + (N - 1)) % (N - 1); rem != 0 {
			for i, n := range ms {
				if i != ki && rem != 0 && (set(n, used(n)+(N-1-rem)) || set(n, used(n)-rem)) {
					rem = 0
				}
			}
		}
	} else if exact && d.IsInt() && r.Pct(75) {
		dd := d.Num().Int64()
		if !high {
			dd = -dd
		}
		// Search whole percentages for the other nodes such that u* is a whole amount: (sum +- N*d)
		// divisible by N-1. Among those prefer (generator bias only; the oracle never looks at it) a
		// placement on which the mean differs between exact and float64 arithmetic whatever the
		// summation order - percentages p with float64(p/100)*100 != p (0.57*100 = 56.99999999999999).
		minPct := make([]int64, len(ms)) // below it the node's system usage would be negative
		for i, n := range ms {
			unit := n.alloc[res] / 100
			minPct[i] = (used(n) - sysOf(n) + unit - 1) / unit
		}
		var fallback, found []int64
		var perms [][]int
		if N <= 4 {
			perms = c18Perms(int(N))
		}
		for attempt := 0; attempt < 100 && found == nil; attempt++ {
			pcts := make([]int64, len(ms))
			sum := int64(0)
			for i, n := range ms {
				if i == ki {
					continue
				}
				switch {
				case attempt == 0:
					pcts[i] = used(n) / (n.alloc[res] / 100)
				case r.Bool():
					pcts[i] = int64(kit.Pick(r, []int{7, 14, 28, 29, 55, 56, 57, 58}))
				default:
					pcts[i] = int64(r.Range(0, 100))
				}
				if pcts[i] < minPct[i] {
					pcts[i] = minPct[i]
				}
				if pcts[i] > 100 {
					sum = -1 << 40
				}
				sum += pcts[i]
			}
			if sum < 0 || (sum+N*dd)%(N-1) != 0 {
				continue
			}
			pk := (sum + N*dd) / (N - 1)
			if pk < minPct[ki] || pk > 100 || pk < 0 {
				continue
			}
			pcts[ki] = pk
			if fallback == nil {
				fallback = pcts
			}
			if !high || perms == nil {
				break
			}
			target := pk * (k.alloc[res] / 100)
			slip := true
			for _, perm := range perms {
				f := 0.0
				for _, j := range perm {
					f += float64(pcts[j]*(ms[j].alloc[res]/100)) / float64(ms[j].alloc[res]) * 100.0
				}
				if int64((f/float64(N)+float64(dd))*float64(k.alloc[res])/100) >= target {
					slip = false
					break
				}
			}
			if slip {
				found = pcts
			}
		}
		if found != nil {
			steered = true
			fallback = found
		}
		if fallback != nil {
			for i, n := range ms {
				if i != ki && !set(n, fallback[i]*(n.alloc[res]/100)) {
					w.c.Harness("deviation boundary: cannot set %s to %d %%", n.name, fallback[i])
				}
			}
		}
	}
	S := new(big.Rat)
	for i, n := range ms {
		if i != ki {
			S.Add(S, big.NewRat(used(n), n.alloc[res]))
		}
	}
	nd := new(big.Rat).Mul(big.NewRat(N, 100), d)
	if high {
		S.Add(S, nd)
	} else {
		S.Sub(S, nd)
	}
	ustar := S.Mul(S, big.NewRat(k.alloc[res], N-1))
	if ustar.Sign() < 0 {
		return
	}
	base := new(big.Int).Quo(ustar.Num(), ustar.Denom()).Int64() // last whole usage not above (high) / still under (low)
	off := int64([]int{0, 1, -1}[r.Weighted(60, 22, 18)])
	if steered {
		off = 0
		w.c.Count("deviation_boundary_placements_float64_hostile", 1)
	}
	if set(k, base+off) {
		w.c.Count("deviation_boundary_placements", 1)
		if ustar.IsInt() && off == 0 {
			w.c.Count("deviation_boundary_placements_exact", 1)
		}
		w.c.Op("round %d deviation boundary: %s %s moved to %d (%s boundary %s, offset %d)", round, k.name, res, base+off, []string{"low", "high"}[which], c18RatStr(ustar), off)
	}
}

// ---------------------------------------------------------------------------------------------
// oracle: usage / threshold table recomputed from the objects handed to the plugin

type c18Row struct {
	n        *c18Node
	measured bool
	unsched  bool
	u        [2]map[corev1.ResourceName]int64 // measured usage at the start of the round
	est      [2]map[corev1.ResourceName]int64 // running estimate
	lo, hi   [2]map[corev1.ResourceName]*big.Rat
	over0    [2]bool
	under    [2]bool
	podM     map[string]map[corev1.ResourceName]int64
	pods     []*c18Pod
	// diagnostics
	metriclessEvicted int
	attempts          int
}

type c18Table struct {
	cfg  *c18PoolCfg
	rows []*c18Row
	res  [2][]corev1.ResourceName
	head [2]map[corev1.ResourceName]int64
	// diagnostics
	metriclessHead [2]int
	evictCalls     int
}

// c18Capacity: the amount a percentage of the node refers to: the un-amplified figure for the
// dimensions the raw-allocatable annotation lists, status.allocatable for every other dimension.
func c18Capacity(c *kit.Case, node *corev1.Node, res corev1.ResourceName) int64 {
	if s, ok := node.Annotations[apiext.AnnotationNodeRawAllocatable]; ok {
		raw := corev1.ResourceList{}
		if err := json.Unmarshal([]byte(s), &raw); err != nil {
			c.Harness("raw allocatable annotation: %v", err)
		}
		if _, ok := raw[res]; ok {
			return c18QVal(res, raw)
		}
	}
	return c18QVal(res, node.Status.Allocatable)
}

func c18QVal(res corev1.ResourceName, rl corev1.ResourceList) int64 {
	q, ok := rl[res]
	if !ok {
		return 0
	}
	if res == corev1.ResourceCPU {
		return q.MilliValue()
	}
	return q.Value()
}

// c18Cmp compares an integral usage with a threshold. ambiguous: the threshold is not integral but
// within 1e-6 of the integer the usage sits on (only possible for deviation thresholds); the
// comparison is then resolved in favour of the code under test.
func c18Cmp(u int64, t *big.Rat) (int, bool) {
	c := new(big.Rat).SetInt64(u).Cmp(t)
	if t.IsInt() {
		return c, false
	}
	d := new(big.Rat).Sub(t, new(big.Rat).SetInt64(u))
	d.Abs(d)
	return c, d.Cmp(big.NewRat(1, 1000000)) < 0
}

// c18DevFloatHigh (evidence counter only, never part of a verdict): the deviation high threshold as
// float64 arithmetic yields it (mean of used/capacity*100 summed in node order, plus deviation, times
// capacity / 100, truncated) - tells how many exact placements are reachable by a float64 slip.
func c18DevFloatHigh(tab *c18Table, row *c18Row, pass int, res corev1.ResourceName) int64 {
	sum, n := 0.0, 0
	for _, r := range tab.rows {
		if r.measured {
			sum += float64(r.u[pass][res]) / float64(r.n.alloc[res]) * 100.0
			n++
		}
	}
	pct := sum/float64(n) + tab.cfg.flt(pass, 1, res)
	if pct > 100 {
		pct = 100
	}
	return int64(pct * float64(row.n.alloc[res]) / 100)
}

// c18WithinOneUnder: 0 <= t-u < 1, i.e. u is the last whole usage that is not above t.
func c18WithinOneUnder(u int64, t *big.Rat) bool {
	d := new(big.Rat).Sub(t, new(big.Rat).SetInt64(u))
	return d.Sign() >= 0 && d.Cmp(big.NewRat(1, 1)) < 0
}

func c18Ceil(t *big.Rat) int64 {
	q := new(big.Int).Div(t.Num(), t.Denom()) // floor for positive denominators (Euclidean)
	if !t.IsInt() {
		q.Add(q, big.NewInt(1))
	}
	return q.Int64()
}

func (row *c18Row) overNow(tab *c18Table, pass int) bool {
	for _, res := range tab.res[pass] {
		if c, amb := c18Cmp(row.est[pass][res], row.hi[pass][res]); c > 0 || amb {
			return true
		}
	}
	return false
}

func c18BuildTable(w *c18World, cfg *c18PoolCfg) *c18Table {
	tab := &c18Table{cfg: cfg}
	tab.res[0], tab.res[1] = cfg.res(0), cfg.res(1)
	for _, n := range w.nodes {
		if n.pool != cfg.selector && cfg.selector != "" {
			continue
		}
		row := &c18Row{n: n, unsched: n.obj.Spec.Unschedulable, pods: w.livePods(n.name), podM: map[string]map[corev1.ResourceName]int64{}}
		row.measured = n.nm != nil && n.nm.Status.NodeMetric != nil && n.metricState == c18MetricFresh
		tab.rows = append(tab.rows, row)
		if !row.measured {
			continue
		}
		for pass := 0; pass < 2; pass++ {
			row.u[pass] = map[corev1.ResourceName]int64{}
			row.est[pass] = map[corev1.ResourceName]int64{}
			row.lo[pass] = map[corev1.ResourceName]*big.Rat{}
			row.hi[pass] = map[corev1.ResourceName]*big.Rat{}
		}
		prodPods := map[string]bool{}
		for _, p := range row.pods {
			if p.terminated {
				continue // a Succeeded/Failed pod occupies nothing
			}
			if p.prod {
				prodPods[p.key()] = true
				row.u[c18PassProd][corev1.ResourcePods]++
			}
			row.u[c18PassNode][corev1.ResourcePods]++
		}
		for _, res := range []corev1.ResourceName{corev1.ResourceCPU, corev1.ResourceMemory} {
			row.u[c18PassNode][res] = c18QVal(res, n.nm.Status.NodeMetric.SystemUsage.ResourceList)
		}
		for _, pm := range n.nm.Status.PodsMetric {
			m := map[corev1.ResourceName]int64{}
			for _, res := range []corev1.ResourceName{corev1.ResourceCPU, corev1.ResourceMemory} {
				v := c18QVal(res, pm.PodUsage.ResourceList)
				m[res] = v
				row.u[c18PassNode][res] += v
				if prodPods[pm.Namespace+"/"+pm.Name] {
					row.u[c18PassProd][res] += v
				}
			}
			row.podM[pm.Namespace+"/"+pm.Name] = m
		}
		// the generator's promise: the measured usage equals the reported NodeUsage
		for _, res := range []corev1.ResourceName{corev1.ResourceCPU, corev1.ResourceMemory} {
			if row.u[c18PassNode][res] != c18QVal(res, n.nm.Status.NodeMetric.NodeUsage.ResourceList) {
				w.c.Harness("node %s: system+pods usage %d differs from NodeUsage", n.name, row.u[c18PassNode][res])
			}
			if row.u[c18PassNode][res] > n.alloc[res] {
				w.c.Count("node_rounds_usage_above_allocatable", 1)
			}
			if _, thresholded := cfg.pct[c18PassNode][1][res]; row.u[c18PassNode][res] > n.alloc[res]+n.alloc[res]/10 || row.u[c18PassNode][res] > n.alloc[res] && !thresholded {
				w.c.Harness("node %s: usage above allocatable in a resource without whole-node threshold (or by more than 10 %%)", n.name)
			}
		}
		for pass := 0; pass < 2; pass++ {
			for res, v := range row.u[pass] {
				row.est[pass][res] = v
			}
		}
	}
	// thresholds
	nMeasured := int64(0)
	for _, row := range tab.rows {
		if row.measured {
			nMeasured++
		}
	}
	for pass := 0; pass < 2; pass++ {
		for _, res := range tab.res[pass] {
			avg := new(big.Rat)
			if cfg.dev && nMeasured > 0 {
				for _, row := range tab.rows {
					if row.measured {
						avg.Add(avg, big.NewRat(row.u[pass][res]*100, row.n.alloc[res]))
					}
				}
				avg.Quo(avg, new(big.Rat).SetInt64(nMeasured))
			}
			for _, row := range tab.rows {
				if !row.measured {
					continue
				}
				for which := 0; which < 2; which++ {
					pct := cfg.rat(pass, which, res)
					if cfg.dev {
						if which == 0 {
							pct.Sub(avg, pct)
						} else {
							pct.Add(avg, pct)
						}
						if pct.Sign() < 0 {
							pct.SetInt64(0)
						}
						if pct.Cmp(big.NewRat(100, 1)) > 0 {
							pct.SetInt64(100)
						}
					}
					t := new(big.Rat).Mul(pct, big.NewRat(row.n.alloc[res], 100))
					if which == 0 {
						row.lo[pass][res] = t
					} else {
						row.hi[pass][res] = t
					}
				}
			}
		}
	}
	tab.classify()
	return tab
}

// classify derives over / under / headroom from the usages and thresholds of the table.
func (tab *c18Table) classify() {
	for _, row := range tab.rows {
		if !row.measured {
			continue
		}
		for pass := 0; pass < 2; pass++ {
			row.over0[pass] = row.overNow(tab, pass)
			under := !row.unsched
			for _, res := range tab.res[pass] {
				if c, amb := c18Cmp(row.u[pass][res], row.lo[pass][res]); c > 0 && !amb {
					under = false
				}
			}
			row.under[pass] = under
		}
	}
	for pass := 0; pass < 2; pass++ {
		tab.head[pass] = map[corev1.ResourceName]int64{}
		for _, row := range tab.rows {
			if row.measured && row.under[pass] {
				for _, res := range tab.res[pass] {
					tab.head[pass][res] += c18Ceil(row.hi[pass][res]) - row.u[pass][res]
				}
			}
		}
	}
}

// c18Apply: the effect of a successful eviction on the running estimates and the headroom ledgers.
func c18Apply(tab *c18Table, row *c18Row, pod *c18Pod) {
	m, reported := row.podM[pod.key()]
	srcPass := c18PassProd
	if row.over0[c18PassNode] {
		srcPass = c18PassNode
	}
	if !reported {
		row.metriclessEvicted++
		tab.metriclessHead[srcPass]++
	}
	for _, res := range c18Res {
		var v int64
		if res == corev1.ResourcePods {
			v = 1
		} else if reported {
			v = m[res]
		}
		row.est[c18PassNode][res] -= v
		if pod.prod {
			row.est[c18PassProd][res] -= v
		}
		// the load moved consumes the headroom of the pass the node is a source of; a node that
		// was over its whole-node thresholds at the start is a source of the whole-node pass.
		if srcPass == c18PassNode || pod.prod {
			if _, ok := tab.head[srcPass][res]; ok {
				tab.head[srcPass][res] -= v
			}
		}
	}
}

// c18Judge: is this Evict call justified on the given table? "" = yes, else the kind of verdict.
func c18Judge(tab *c18Table, row *c18Row, pod *c18Pod, callsBefore, streak, maxRunBefore int) string {
	if !row.measured {
		return "unmeasured-node"
	}
	overNow := [2]bool{row.overNow(tab, 0), row.overNow(tab, 1)}
	if !overNow[0] && !overNow[1] {
		return "not-over"
	}
	if streak < tab.cfg.need && maxRunBefore < tab.cfg.need {
		return "short-streak"
	}
	under, justified := false, false
	for pass := 0; pass < 2; pass++ {
		if overNow[pass] && tab.otherUnder(row, pass) {
			under = true
			if tab.headPositive(pass) {
				justified = true
			}
		}
	}
	switch {
	case !under:
		return "no-underused-node"
	case !justified:
		return "headroom-exhausted"
	case !c18FilterPasses(pod.obj, callsBefore):
		return "filtered-pod"
	}
	return ""
}

// floatView: the table of a deviation pool with the thresholds recomputed the way the code under test
// is known to do it - per-node used/capacity*100 summed in float64 in the given node order, divided by
// the number of measured nodes, +- deviation clamped to 0..100, times capacity / 100, truncated. Used
// only to decide whether a violation is an instance of the known finding, never for a verdict.
//
// shift: with many nodes the order-dependent part of the float64 mean cannot be enumerated; shift = -1 /
// +1 moves the mean to the lower / upper end of the interval that reordering the sum can reach
// (|error| <= (n+2) * 2^-52 * mean, the standard bound for recursive summation of n positive terms).
func (tab *c18Table) floatView(order []int, shift float64) *c18Table {
	fv := &c18Table{cfg: tab.cfg, res: tab.res}
	var measured []*c18Row
	for _, row := range tab.rows {
		cp := &c18Row{n: row.n, measured: row.measured, unsched: row.unsched, podM: row.podM, pods: row.pods}
		fv.rows = append(fv.rows, cp)
		if !row.measured {
			continue
		}
		for pass := 0; pass < 2; pass++ {
			cp.u[pass] = row.u[pass]
			cp.est[pass] = map[corev1.ResourceName]int64{}
			for res, v := range row.u[pass] {
				cp.est[pass][res] = v
			}
			cp.lo[pass] = map[corev1.ResourceName]*big.Rat{}
			cp.hi[pass] = map[corev1.ResourceName]*big.Rat{}
		}
		measured = append(measured, cp)
	}
	for pass := 0; pass < 2; pass++ {
		for _, res := range tab.res[pass] {
			sum := 0.0
			for _, i := range order {
				row := measured[i]
				sum += float64(row.u[pass][res]) / float64(row.n.alloc[res]) * 100.0
			}
			avg := sum / float64(len(measured))
			avg += shift * float64(len(measured)+2) * 2.220446049250313e-16 * avg
			for _, row := range measured {
				for which := 0; which < 2; which++ {
					pct := avg + tab.cfg.flt(pass, 1, res)
					if which == 0 {
						pct = avg - tab.cfg.flt(pass, 0, res)
					}
					if pct > 100 {
						pct = 100
					}
					if pct < 0 {
						pct = 0
					}
					t := new(big.Rat).SetInt64(int64(pct * float64(row.n.alloc[res]) / 100))
					if which == 0 {
						row.lo[pass][res] = t
					} else {
						row.hi[pass][res] = t
					}
				}
			}
		}
	}
	fv.classify()
	return fv
}

func (tab *c18Table) measuredCount() int {
	n := 0
	for _, row := range tab.rows {
		if row.measured {
			n++
		}
	}
	return n
}

// c18Orders: summation orders tried for n measured nodes (the code sums in Go map order): all of them
// up to 4 nodes, else forward, reverse and ten fixed shuffles. k-th order of every size belongs together.
func c18Orders(n int) [][]int {
	if n <= 4 {
		if n <= 1 {
			return [][]int{make([]int, n)}
		}
		return c18Perms(n)
	}
	fwd, rev := make([]int, n), make([]int, n)
	for i := range fwd {
		fwd[i], rev[i] = i, n-1-i
	}
	out := [][]int{fwd, rev}
	for k := 0; k < 10; k++ {
		out = append(out, kit.NewRand(uint64(977*k+n)).Perm(n))
	}
	return out
}

// floatJustifies: would Evict call evIdx of this round be fully justified if the pool's thresholds, in
// this and all earlier rounds, were the float64 ones (for some summation order)?
func (w *c18World) floatJustifies(round, pool, evIdx int) bool {
	cur := w.hist[round-1][pool]
	if !cur.cfg.dev {
		return false
	}
	ev := w.events[evIdx]
	pod := w.byName[ev.pod]
	for k := 0; k < 26; k++ {
		shift := 0.0
		if k >= 24 {
			shift = float64(2*(k-24) - 1)
		}
		pick := func(tab *c18Table) []int {
			os := c18Orders(tab.measuredCount())
			if shift != 0 {
				return os[0]
			}
			return os[k%len(os)]
		}
		// the node's over-threshold streak under float64 thresholds
		streak, maxRun := 0, 0
		var fv *c18Table
		for r := 0; r < round; r++ {
			tab := w.hist[r][pool]
			if tab.measuredCount() == 0 {
				fv = tab.floatView(nil, 0)
				continue
			}
			fv = tab.floatView(pick(tab), shift)
			row := fv.row(ev.node)
			switch {
			case row == nil || !row.measured:
			case row.over0[0] || row.over0[1]:
				streak++
			default:
				if streak > maxRun {
					maxRun = streak
				}
				streak = 0
			}
		}
		row := fv.row(ev.node)
		if row == nil {
			return false
		}
		for j := 0; j < evIdx; j++ {
			if pj, rj := w.byName[w.events[j].pod], fv.row(w.events[j].node); w.events[j].ok && pj != nil && rj != nil && rj.measured {
				c18Apply(fv, rj, pj)
			}
		}
		if c18Judge(fv, row, pod, ev.callsBefore, streak, maxRun) == "" {
			return true
		}
	}
	return false
}

func (tab *c18Table) row(node string) *c18Row {
	for _, r := range tab.rows {
		if r.n.name == node {
			return r
		}
	}
	return nil
}

func (tab *c18Table) otherUnder(row *c18Row, pass int) bool {
	for _, r := range tab.rows {
		if r != row && r.measured && r.under[pass] {
			return true
		}
	}
	return false
}

func (tab *c18Table) headPositive(pass int) bool {
	for _, res := range tab.res[pass] {
		if tab.head[pass][res] <= 0 {
			return false
		}
	}
	return true
}

func c18RatStr(t *big.Rat) string {
	if t == nil {
		return "-"
	}
	if t.IsInt() {
		return t.Num().String()
	}
	return t.FloatString(4)
}

func (tab *c18Table) dump() string {
	var b strings.Builder
	fmt.Fprintf(&b, "%s\n", tab.cfg)
	for _, row := range tab.rows {
		fmt.Fprintf(&b, "  %s measured=%v unschedulable=%v streak=%d", row.n.name, row.measured, row.unsched, row.n.streak)
		if row.measured {
			for pass := 0; pass < 2; pass++ {
				fmt.Fprintf(&b, " | %s over=%v under=%v", c18PassName[pass], row.over0[pass], row.under[pass])
				for _, res := range tab.res[pass] {
					fmt.Fprintf(&b, " %s: used=%d now=%d low=%s high=%s alloc=%d", res, row.u[pass][res], row.est[pass][res], c18RatStr(row.lo[pass][res]), c18RatStr(row.hi[pass][res]), row.n.alloc[res])
				}
			}
		}
		b.WriteString("\n")
	}
	fmt.Fprintf(&b, "  headroom left: node=%v prod=%v", tab.head[0], tab.head[1])
	return b.String()
}

// c18FloatTruncated: does the shipped formula int64(pct*0.01*capacity) differ from the exact
// percentage of the capacity? (diagnostic for the signature only)
func c18FloatTruncated(pct float64, alloc int64) bool {
	q, _ := new(big.Rat).SetString(strconv.FormatFloat(pct, 'f', -1, 64))
	return int64(pct*0.01*float64(alloc)) != c18Floor(q, alloc)
}

// checkRound applies the statement to every Evict call of the round.
func (w *c18World) checkRound(round int, pools []*c18PoolCfg) {
	c := w.c
	tabs := make([]*c18Table, len(pools))
	for i, cfg := range pools {
		tabs[i] = c18BuildTable(w, cfg)
	}
	find := func(node string) (*c18Table, *c18Row) {
		for _, tab := range tabs {
			if row := tab.row(node); row != nil {
				return tab, row
			}
		}
		return nil, nil
	}
	// streaks (measured state only, before looking at any eviction)
	for _, tab := range tabs {
		defer func(tab *c18Table) {
			line := fmt.Sprintf("round %d oracle pool %s:", round, tab.cfg.name)
			for _, row := range tab.rows {
				st := "unmeasured"
				if row.measured {
					st = fmt.Sprintf("node(over=%v under=%v) prod(over=%v under=%v) over-streak=%d/%d", row.over0[0], row.under[0], row.over0[1], row.under[1], row.n.streak, tab.cfg.need)
				}
				line += fmt.Sprintf(" %s[%s]", row.n.name, st)
			}
			c.Op("%s", line)
		}(tab)
		for _, row := range tab.rows {
			n := row.n
			switch {
			case !row.measured:
				if n.streak > 0 {
					n.bridgedUnmeasure = true
				}
				c.Count("unmeasured_node_rounds", 1)
			case row.over0[0] || row.over0[1]:
				n.streak++
			default:
				if n.streak > 0 {
					n.overBeforeGap = true
				}
				if n.streak > n.maxRunBefore {
					n.maxRunBefore = n.streak
				}
				n.streak = 0
			}
			if row.measured {
				for pass := 0; pass < 2; pass++ {
					for _, res := range tab.res[pass] {
						if tab.cfg.dev && !row.over0[0] && !row.over0[1] && c18WithinOneUnder(row.u[pass][res], row.hi[pass][res]) {
							n.devOnThreshold = true
						}
						if cmp, _ := c18Cmp(row.u[pass][res], row.hi[pass][res]); cmp == 0 {
							c.Count("threshold_exact_high", 1)
							if tab.cfg.dev {
								c.Count("threshold_exact_high_deviation", 1)
								if c18DevFloatHigh(tab, row, pass, res) < row.u[pass][res] {
									c.Count("threshold_exact_high_deviation_float64_mean_lower", 1)
									if row.n.streak >= tab.cfg.need && tab.otherUnder(row, pass) {
										c.Count("threshold_exact_high_deviation_float64_mean_lower_evictable", 1)
									}
								}
							}
							if !tab.cfg.dev && c18FloatTruncated(tab.cfg.flt(pass, 1, res), n.alloc[res]) {
								c.Count("threshold_exact_high_float_truncated", 1)
								if !row.over0[0] && !row.over0[1] {
									n.truncOnThreshold = true
								}
							}
						} else if d := new(big.Rat).Sub(new(big.Rat).SetInt64(row.u[pass][res]), row.hi[pass][res]); d.Cmp(big.NewRat(1, 1)) == 0 {
							c.Count("threshold_high_plus_one", 1)
						}
						if cmp, _ := c18Cmp(row.u[pass][res], row.lo[pass][res]); cmp == 0 {
							c.Count("threshold_exact_low", 1)
						}
					}
				}
			}
		}
	}
	w.hist = append(w.hist, tabs)
	tabIndex := map[*c18Table]int{}
	for i, tab := range tabs {
		tabIndex[tab] = i
	}
	for evIdx, ev := range w.events {
		pod := w.byName[ev.pod]
		c.Count("evict_calls_checked", 1)
		if ev.ok {
			c.Count("evict_ok", 1)
		} else {
			c.Count("evict_refused", 1)
		}
		if pod == nil || pod.node != ev.node {
			c.Fail("C18/evict/unknown-pod", "round %d: Evict(%s on %s): no such live pod on that node", round, ev.pod, ev.node)
		}
		tab, row := find(ev.node)
		if tab == nil {
			c.Fail("C18/evict/node-outside-pools", "round %d: Evict(%s): node %s is selected by no node pool", round, ev.pod, ev.node)
		}
		tab.evictCalls++
		row.attempts++
		where := fmt.Sprintf("round %d: Evict(%s prod=%v reported=%v) on %s [reason given: %s]", round, ev.pod, pod.prod, row.podM[ev.pod], ev.node, ev.reason)
		if !row.measured {
			c.Fail("C18/evict/unmeasured-node", "%s: the node has no valid (fresh) NodeMetric (%s), so no measured usage above a threshold\n%s", where, c18StateName[row.n.metricState], tab.dump())
		}
		overNow := [2]bool{row.overNow(tab, 0), row.overNow(tab, 1)}
		// identifying facts that narrow the signatures below (diagnostics, not part of the oracle): in a
		// pass in which the node is not over, does it sit exactly on a high threshold (one that the
		// shipped float formula truncates?), or would it be over if evictions of pods without a pod
		// metric were not counted in the pod count?
		onThr, trunc, podCount, devNear := false, false, false, false
		for pass := 0; pass < 2; pass++ {
			if overNow[pass] {
				continue
			}
			for _, res := range tab.res[pass] {
				if tab.cfg.dev && c18WithinOneUnder(row.est[pass][res], row.hi[pass][res]) {
					devNear = true
				}
				if cmp, _ := c18Cmp(row.est[pass][res], row.hi[pass][res]); cmp == 0 {
					onThr = true
					if !tab.cfg.dev && c18FloatTruncated(tab.cfg.flt(pass, 1, res), row.n.alloc[res]) {
						trunc = true
					}
				}
			}
			if hi, ok := row.hi[pass][corev1.ResourcePods]; ok && row.metriclessEvicted > 0 {
				if cmp, _ := c18Cmp(row.est[pass][corev1.ResourcePods]+int64(row.metriclessEvicted), hi); cmp > 0 {
					podCount = true
				}
			}
		}
		diag := ""
		switch {
		case podCount:
			diag = "/pod-count-ignores-metricless-evictions"
		case trunc:
			diag = "/on-threshold-float-truncated"
		}
		_ = devNear
		// Attribution to the known deviation-threshold float behaviour: only if this very Evict call is
		// fully justified once the pool's thresholds are recomputed the way the code does, in float64.
		floatSuffix := ""
		floatDone := false
		devFloat := func() string {
			if !floatDone {
				floatDone = true
				if w.floatJustifies(round, tabIndex[tab], evIdx) {
					floatSuffix = "/deviation-threshold-float"
				}
			}
			return floatSuffix
		}
		if !overNow[0] && !overNow[1] {
			kind := "continued-after-back-under"
			if !row.over0[0] && !row.over0[1] {
				kind = "never-over"
			}
			sig := "C18/evict/not-over/" + kind + diag
			if diag == "" && onThr {
				sig += "/on-threshold"
			}
			if f := devFloat(); f != "" {
				sig = "C18/evict/not-over/" + kind + f
			}
			c.Fail(sig, "%s: the node's usage (measured at the start of the round minus the reported usage of the pods already evicted from it) is above no high threshold, neither whole-node nor prod\n%s", where, tab.dump())
		}
		if row.n.streak < tab.cfg.need && row.n.maxRunBefore >= tab.cfg.need {
			// An earlier run WAS long enough ("has been so for the required consecutive rounds" was true
			// when the anomaly opened); a measured not-over round lies between it and now. The API's
			// LoadAnomalyCondition.ConsecutiveNormalities documents a hysteresis that keeps an opened
			// anomaly open across such rounds, and the statement does not say when a qualified run
			// expires. Counted, not a verdict (decision recorded in DESIGN.md, C18).
			c.Count("anomaly_open_kept_across_not_over_round", 1)
		} else if row.n.streak < tab.cfg.need {
			sig := "C18/anomaly/short-streak"
			switch {
			case row.n.truncOnThreshold:
				sig += "/on-threshold-float-truncated"
			case devFloat() != "":
				sig += devFloat()
			case row.n.overBeforeGap:
				// no run was ever long enough: over-threshold rounds separated by not-over rounds add up
				sig += "/after-interrupted-streak"
			}
			c.Fail(sig, "%s: anomaly detection requires %d consecutive over-threshold rounds, the node has been over its high threshold for only %d consecutive round(s) (earlier over-threshold rounds before a measured not-over round: %v, longest such earlier run: %d; evicted from in an earlier round: %v; sat exactly on a float-truncated high threshold in an earlier round: %v)\n%s",
				where, tab.cfg.need, row.n.streak, row.n.overBeforeGap, row.n.maxRunBefore, row.n.evictedEarlier, row.n.truncOnThreshold, tab.dump())
		}
		var withUnder, justified []int
		for pass := 0; pass < 2; pass++ {
			if overNow[pass] && tab.otherUnder(row, pass) {
				withUnder = append(withUnder, pass)
				if tab.headPositive(pass) {
					justified = append(justified, pass)
				}
			}
		}
		if len(withUnder) == 0 {
			if f := devFloat(); f != "" {
				diag = f
			}
			c.Fail("C18/evict/no-underused-node"+diag, "%s: no other schedulable node of the pool is under all low thresholds of the pass in which this node is over (node over=%v, prod over=%v)\n%s", where, overNow[0], overNow[1], tab.dump())
		}
		if len(justified) == 0 {
			if f := devFloat(); f != "" {
				diag = f
			}
			sig := "C18/evict/headroom-exhausted" + diag
			for _, pass := range withUnder {
				if diag != "" {
					break
				}
				if _, ok := tab.head[pass][corev1.ResourcePods]; ok && tab.metriclessHead[pass] > 0 {
					only := true
					for _, res := range tab.res[pass] {
						h := tab.head[pass][res]
						if res == corev1.ResourcePods {
							h += int64(tab.metriclessHead[pass])
						}
						if h <= 0 {
							only = false
						}
					}
					if only {
						sig += "/pod-count-ignores-metricless-evictions"
					}
				}
			}
			c.Fail(sig, "%s: the headroom of the under-used nodes (sum of high threshold minus usage, minus the reported usage of the pods evicted so far) is not positive in every thresholded resource\n%s", where, tab.dump())
		}
		if !c18FilterPasses(pod.obj, ev.callsBefore) {
			c.Fail("C18/evict/filtered-pod", "%s: the evictor's Filter rejects this pod at that moment (filter-until=%d, %d Evict calls before)", where, pod.filterUntil, ev.callsBefore)
		}
		switch {
		case len(justified) == 2:
			c.Count("justified_by_both", 1)
		case justified[0] == c18PassNode:
			c.Count("justified_by_node_usage", 1)
		default:
			c.Count("justified_by_prod_usage", 1)
		}
		if pod.filterUntil > 0 {
			c.Count("evicted_pods_with_time_varying_filter", 1)
		}
		c.Seen("ev", tab.cfg.dev, len(tab.res[0]), len(tab.res[1]), tab.cfg.need, c18Cap(row.n.streak, 4), overNow, pod.prod, ev.ok, row.podM[ev.pod] != nil, c18Cap(row.attempts, 3), c18Cap(len(tab.rows), 5))
		// the eviction's effect on the running estimates
		if !ev.ok {
			continue
		}
		if _, reported := row.podM[ev.pod]; !reported {
			c.Count("evicted_without_pod_metric", 1)
		}
		c18Apply(tab, row, pod)
		for pass := 0; pass < 2; pass++ {
			if !row.over0[pass] {
				continue
			}
			if !row.overNow(tab, pass) {
				c.Count("node_brought_back_under", 1)
				for _, res := range tab.res[pass] {
					if cmp, _ := c18Cmp(row.est[pass][res], row.hi[pass][res]); cmp == 0 {
						c.Count("estimate_landed_exactly_on_high", 1)
					}
				}
			}
		}
	}
	// round-level statement: evict nothing when no node is over, none is under, or all are under
	for _, tab := range tabs {
		anyOver, anyUnder, allUnder, gateOK, nMeasured := false, false, len(tab.rows) > 0, false, 0
		for _, row := range tab.rows {
			if !row.measured {
				allUnder = false
				continue
			}
			nMeasured++
			if row.over0[0] || row.over0[1] {
				anyOver = true
				if row.n.streak >= tab.cfg.need {
					gateOK = true
				}
			}
			for pass := 0; pass < 2; pass++ {
				if len(tab.res[pass]) > 0 && row.under[pass] {
					anyUnder = true
				}
				if len(tab.res[pass]) > 0 && !row.under[pass] {
					allUnder = false
				}
			}
		}
		c.Count("pool_rounds", 1)
		if tab.evictCalls > 0 {
			c.Count("pool_rounds_with_evictions", 1)
			if !anyOver {
				c.Fail("C18/evict-nothing/no-node-over", "round %d: %d Evict calls although no node of the pool is over a high threshold\n%s", round, tab.evictCalls, tab.dump())
			}
			if !anyUnder {
				c.Fail("C18/evict-nothing/no-node-under", "round %d: %d Evict calls although no node of the pool is under the low thresholds\n%s", round, tab.evictCalls, tab.dump())
			}
			if allUnder {
				c.Fail("C18/evict-nothing/all-nodes-under", "round %d: %d Evict calls although every node of the pool is under the low thresholds\n%s", round, tab.evictCalls, tab.dump())
			}
		} else {
			switch {
			case nMeasured == 0:
				c.Count("zero_evictions_no_measured_node", 1)
			case allUnder:
				c.Count("zero_evictions_all_nodes_under", 1)
			case !anyOver:
				c.Count("zero_evictions_no_node_over", 1)
			case !anyUnder:
				c.Count("zero_evictions_no_node_under", 1)
			case !gateOK:
				c.Count("zero_evictions_anomaly_gate", 1)
			default:
				c.Count("zero_evictions_other", 1)
			}
		}
		// how the round ended for the sources
		for pass := 0; pass < 2; pass++ {
			exhausted := len(tab.res[pass]) > 0 && !tab.headPositive(pass)
			for _, row := range tab.rows {
				if !row.measured || !row.over0[pass] || row.n.streak < tab.cfg.need || !tab.otherUnder(row, pass) {
					continue
				}
				if pass == c18PassProd && row.over0[c18PassNode] {
					continue
				}
				still := row.overNow(tab, pass)
				candidates := 0
				for _, p := range row.pods {
					if (pass == c18PassNode || p.prod) && !p.terminated && c18FilterPasses(p.obj, w.calls) && !p.refuse {
						evicted := false
						for _, ev := range w.events {
							if ev.pod == p.key() {
								evicted = true
							}
						}
						if !evicted {
							candidates++
						}
					}
				}
				switch {
				case still && exhausted:
					c.Count("headroom_exhaustion_stops", 1)
				case still && candidates > 0 && w.okCount < w.okLimit:
					c.Count("converse_misses_source_left_over_with_candidates", 1)
				case !still && candidates > 0 && row.attempts > 0:
					c.Count("stops_with_candidates_left_after_back_under", 1)
				}
				c.Seen("end", tab.cfg.dev, pass, still, exhausted, c18Cap(candidates, 2), c18Cap(row.attempts, 3), tab.cfg.need)
			}
		}
		c.Seen("pool", tab.cfg.dev, len(tab.res[0]), len(tab.res[1]), c18Cap(len(tab.rows), 8), c18Cap(nMeasured, 8), anyOver, anyUnder, allUnder, gateOK, c18Cap(tab.evictCalls, 4), round)
	}
	for _, ev := range w.events {
		if _, row := find(ev.node); row != nil {
			row.n.evictedEarlier = true
		}
	}
}

// c18Perms: all orders of 0..n-1 (n <= 4).
func c18Perms(n int) [][]int {
	var out [][]int
	var rec func(cur []int, used int)
	rec = func(cur []int, used int) {
		if len(cur) == n {
			out = append(out, append([]int(nil), cur...))
			return
		}
		for i := 0; i < n; i++ {
			if used&(1<<i) == 0 {
				rec(append(cur, i), used|1<<i)
			}
		}
	}
	rec(nil, 0)
	return out
}

func c18Cap(v, m int) int {
	if v > m {
		return m
	}
	return v
}

// ---------------------------------------------------------------------------------------------
// the unit

func TestVerifC18Balance(t *testing.T) {
	kit.Run(t, kit.Config{Property: "C18", Unit: "balance", Quick: 2500, Thorough: 400000,
		Rule: "one case = one generated cluster (1-24 nodes, mostly 2-8; capacities equal or different, multiples of 100 units or arbitrary, cpu 100m-4096 cores, memory up to 32 TiB, pods 30-250; amplified nodes with raw-allocatable annotation; taints; 1-3 disjoint node pools selected by matchLabels or matchExpressions, absolute or deviation thresholds over cpu/memory/pods incl. fractional percentages and the 0/100 end points, optional prod thresholds, anomaly condition nil/1-5 abnormalities x 1-5 normalities, NodeFit on/off, NumberOfNodes 0-3, EvictableNamespaces/PodSelectors, nil weights) balanced for 1-10 successive rounds by one real LowNodeLoad; per round every node draws a sticky role per pass (over/under/between) and usages are placed on, one unit beside, 1 % beside or at random distance from the thresholds (up to 10 % above the allocatable for thresholded resources); in deviation pools one node is moved onto / one unit beside its own mean+-deviation boundary (exactly where capacities allow); NodeMetrics missing/stale/without status; 0-30 pods per node in two namespaces (same name in both possible), running or terminated, with/without pod metrics, prod/mid/batch/free by label or by spec.priority band, scripted evictor (filter never / until k-th eviction, Evict refused per pod or after a cap). distinct = (threshold mode, thresholded resources, anomaly need, streak, over-by pass, pod kind, outcome, attempts) per Evict call plus the end state per source node and the per-pool classification; non-trivial = a case in which at least one Evict call was checked"},
		func(c *kit.Case) { c18Case(c) })
}

func c18Case(c *kit.Case) {
	r := c.R
	w := &c18World{c: c, byName: map[string]*c18Pod{}}
	// pools
	var pools []*c18PoolCfg
	switch r.Weighted(47, 18, 27, 8) {
	case 0:
		pools = []*c18PoolCfg{c18GenPool(r, "all", "")}
	case 1:
		pools = []*c18PoolCfg{c18GenPool(r, "a", "a")}
	case 2:
		pools = []*c18PoolCfg{c18GenPool(r, "a", "a"), c18GenPool(r, "b", "b")}
	default:
		pools = []*c18PoolCfg{c18GenPool(r, "a", "a"), c18GenPool(r, "b", "b"), c18GenPool(r, "c", "c")}
	}
	args := &deschedulerconfig.LowNodeLoadArgs{
		NodeFit:                     r.Bool(),
		NumberOfNodes:               int32([]int{0, 1, 2, 3}[r.Weighted(78, 12, 7, 3)]),
		NodeMetricExpirationSeconds: func() *int64 { v := int64(180); return &v }(),
		DetectorCacheTimeout:        &metav1.Duration{Duration: time.Hour},
	}
	// the plugin's own pod filters (not the evictor's): exercised, never judged (the statement names only
	// the evictor's filters); Evict calls for pods they exclude are counted
	switch r.Weighted(86, 4, 4, 6) {
	case 1:
		args.EvictableNamespaces = &deschedulerconfig.Namespaces{Exclude: []string{"ns2"}}
	case 2:
		args.EvictableNamespaces = &deschedulerconfig.Namespaces{Include: []string{"default"}}
	case 3:
		args.PodSelectors = []deschedulerconfig.LowNodeLoadPodSelector{{Name: "sel", Selector: &metav1.LabelSelector{MatchLabels: map[string]string{c18PodSelLabel: "y"}}}}
	}
	argFiltered := func(pod *corev1.Pod) bool {
		if args.EvictableNamespaces != nil && pod.Namespace == "ns2" {
			return true
		}
		return len(args.PodSelectors) > 0 && pod.Labels[c18PodSelLabel] != "y"
	}
	for _, p := range pools {
		np := deschedulerconfig.LowNodeLoadNodePool{
			Name:                   p.name,
			UseDeviationThresholds: p.dev,
			LowThresholds:          p.thresholds(0, 0),
			HighThresholds:         p.thresholds(0, 1),
			ProdLowThresholds:      p.thresholds(1, 0),
			ProdHighThresholds:     p.thresholds(1, 1),
			ResourceWeights:        map[corev1.ResourceName]int64{corev1.ResourceCPU: int64(r.Range(1, 3)), corev1.ResourceMemory: int64(r.Range(1, 3)), corev1.ResourcePods: 1},
			AnomalyCondition:       p.anomaly,
		}
		if r.Pct(10) {
			np.ResourceWeights = nil // sorting only
		}
		if p.selector != "" {
			np.NodeSelector = &metav1.LabelSelector{MatchLabels: map[string]string{c18PoolLabel: p.selector}}
			if p.exprSel {
				np.NodeSelector = &metav1.LabelSelector{MatchExpressions: []metav1.LabelSelectorRequirement{{Key: c18PoolLabel, Operator: metav1.LabelSelectorOpIn, Values: []string{p.selector, "no-such-pool"}}}}
			}
		}
		args.NodePools = append(args.NodePools, np)
		c.Op("%s", p)
	}
	c.Op("args nodeFit=%v numberOfNodes=%d evictableNamespaces=%v podSelectors=%d", args.NodeFit, args.NumberOfNodes, args.EvictableNamespaces, len(args.PodSelectors))
	// nodes
	nNodes := r.Range(2, 8)
	switch r.Weighted(84, 6, 10) {
	case 1:
		nNodes = 1
	case 2:
		nNodes = r.Range(9, 24)
	}
	homogeneous := r.Pct(35) // every node has the capacity of the first one
	round100 := r.Pct(70)    // allocatable in multiples of 100 units (every whole percentage is a whole amount)
	for i := 0; i < nNodes; i++ {
		n := &c18Node{name: fmt.Sprintf("n%d", i), alloc: map[corev1.ResourceName]int64{}}
		n.alloc[corev1.ResourceCPU] = 100 * int64(r.Range(10, 640))
		switch r.Weighted(3, 3, 94) {
		case 0:
			n.alloc[corev1.ResourceCPU] = 100 * int64(r.Range(1, 9))
		case 1:
			n.alloc[corev1.ResourceCPU] = 1000 * int64(r.Range(641, 4096))
		}
		switch r.Weighted(32, 32, 32, 4) {
		case 0:
			n.alloc[corev1.ResourceMemory] = 100 * int64(r.Range(100, 10000))
		case 1:
			n.alloc[corev1.ResourceMemory] = 100 * (int64(r.Range(1, 512)) << 20)
		case 2:
			n.alloc[corev1.ResourceMemory] = 100 * int64(r.Range(10000000, 2000000000))
		default:
			n.alloc[corev1.ResourceMemory] = 100 * (int64(r.Range(2, 320)) << 30) // up to 32 TiB
		}
		n.alloc[corev1.ResourcePods] = int64(kit.Pick(r, []int{100, 100, 200, 110, 110, 250, 64, 30}))
		if !round100 {
			n.alloc[corev1.ResourceCPU] += int64(r.Range(0, 99))
			n.alloc[corev1.ResourceMemory] += int64(r.Range(0, 99))
		}
		if homogeneous && i > 0 {
			for _, res := range c18Res {
				n.alloc[res] = w.nodes[0].alloc[res]
			}
		}
		switch len(pools) {
		case 1:
			n.pool = pools[0].selector
			if n.pool != "" && r.Pct(15) {
				n.pool = "none"
			}
		case 2:
			n.pool = []string{"a", "b", "none"}[r.Weighted(50, 42, 8)]
		default:
			n.pool = []string{"a", "b", "c", "none"}[r.Weighted(36, 32, 26, 6)]
		}
		// node status: n.alloc is what percentages refer to. On a node with resource amplification the
		// status carries amplified cpu/memory and the raw-allocatable annotation the un-amplified ones
		// (the webhook always saves both cpu and memory, whichever of them is amplified; it never saves
		// pods or any other dimension).
		status := map[corev1.ResourceName]int64{}
		for _, res := range c18Res {
			status[res] = n.alloc[res]
		}
		var rawDims []corev1.ResourceName
		if r.Pct(12) {
			rawDims = []corev1.ResourceName{corev1.ResourceCPU, corev1.ResourceMemory}
			amplified := [][]corev1.ResourceName{{corev1.ResourceCPU, corev1.ResourceMemory}, {corev1.ResourceCPU}, {corev1.ResourceMemory}}[r.Weighted(40, 45, 15)]
			num := int64(kit.Pick(r, []int{3, 4, 6})) // ratio 1.5, 2, 3
			for _, res := range amplified {
				status[res] = n.alloc[res] * num / 2
			}
		}
		n.obj = test.BuildTestNode(n.name, status[corev1.ResourceCPU], status[corev1.ResourceMemory], status[corev1.ResourcePods], func(node *corev1.Node) {
			node.Labels[c18PoolLabel] = n.pool
			node.Status.Allocatable[corev1.ResourceMemory] = *resource.NewQuantity(status[corev1.ResourceMemory], resource.BinarySI)
			if rawDims != nil {
				raw := corev1.ResourceList{}
				for _, res := range rawDims {
					if res == corev1.ResourceCPU {
						raw[res] = *resource.NewMilliQuantity(n.alloc[res], resource.DecimalSI)
					} else {
						raw[res] = *resource.NewQuantity(n.alloc[res], resource.BinarySI)
					}
				}
				apiext.SetNodeRawAllocatable(node, raw)
			}
			if r.Pct(5) {
				node.Spec.Taints = []corev1.Taint{{Key: c18TaintKey, Effect: corev1.TaintEffectNoSchedule}}
			}
		})
		// the oracle's capacities are decoded from the node object, independently of the code under test
		for res, want := range n.alloc {
			if got := c18Capacity(c, n.obj, res); got != want {
				c.Harness("node %s: decoded capacity %s=%d, generated %d", n.name, res, got, want)
			}
		}
		n.obj.Spec.Unschedulable = r.Pct(8)
		n.role = [2]int{r.Weighted(35, 40, 25), r.Weighted(25, 45, 30)}
		w.nodes = append(w.nodes, n)
		k := r.Range(0, 10)
		if r.Pct(6) {
			k = r.Range(11, 30)
		}
		for ; k > 0; k-- {
			w.addPod(r, n)
		}
		c.Op("node %s pool=%q capacity cpu=%dm memory=%d pods=%d status.allocatable cpu=%dm memory=%d raw-allocatable=%v taints=%d", n.name, n.pool, n.alloc[corev1.ResourceCPU], n.alloc[corev1.ResourceMemory], n.alloc[corev1.ResourcePods], status[corev1.ResourceCPU], status[corev1.ResourceMemory], rawDims, len(n.obj.Spec.Taints))
	}
	switch {
	case nNodes == 1:
		c.Count("cases_single_node", 1)
	case nNodes > 8:
		c.Count("cases_more_than_8_nodes", 1)
	}
	if homogeneous && nNodes > 1 {
		c.Count("cases_equal_capacities", 1)
	}
	if !round100 {
		c.Count("cases_capacity_not_multiple_of_100", 1)
	}
	for _, n := range w.nodes {
		if _, ok := n.obj.Annotations[apiext.AnnotationNodeRawAllocatable]; ok {
			c.Count("amplified_nodes", 1)
		}
	}
	for _, p := range pools {
		for pass := 0; pass < 2; pass++ {
			for _, res := range p.res(pass) {
				if p.qtr[pass][0][res] != 0 || p.qtr[pass][1][res] != 0 {
					c.Count("fractional_thresholds", 1)
				}
			}
		}
		if p.need >= 4 {
			c.Count("pools_anomaly_need_4_or_5", 1)
		}
	}
	poolOf := func(n *c18Node) *c18PoolCfg {
		for _, p := range pools {
			if p.selector == "" || p.selector == n.pool {
				return p
			}
		}
		return nil
	}
	// the plugin: the package's constructor over the fake handle; its informer-backed NodeMetric
	// lister is replaced by a lister over an indexer the harness fills synchronously each round.
	ctx, cancel := context.WithCancel(context.Background())
	cancel() // the constructor's informers are never needed
	plugin, err := NewLowNodeLoad(ctx, args, &fakeFrameworkHandle{Handle: &c18Handle{w: w}, Interface: c18Clientset})
	if err != nil {
		c.Harness("NewLowNodeLoad rejected generated args: %v", err)
	}
	pl := plugin.(*LowNodeLoad)
	rounds := r.Range(1, 4)
	if r.Pct(15) {
		rounds = r.Range(5, 6)
	}
	if need := pools[0].need; need > 1 && rounds < need+1 && r.Pct(70) {
		rounds = r.Range(need+1, need+5) // enough rounds for the anomaly detectors to open
	}
	var nodeObjs []*corev1.Node
	for _, n := range w.nodes {
		nodeObjs = append(nodeObjs, n.obj)
	}
	checkedBefore := 0
	for round := 1; round <= rounds; round++ {
		// what changed since the last round
		if round > 1 {
			for _, n := range w.nodes {
				if r.Pct(30) {
					n.role[0] = r.Weighted(35, 40, 25)
				}
				if r.Pct(30) {
					n.role[1] = r.Weighted(25, 45, 30)
				}
				if r.Pct(4) {
					n.obj.Spec.Unschedulable = !n.obj.Spec.Unschedulable
				}
				for k := r.Weighted(70, 20, 10); k > 0; k-- {
					if len(w.livePods(n.name)) < 12 {
						w.addPod(r, n)
					}
				}
			}
		}
		bias := r.Weighted(65, 13, 11, 11)
		for _, p := range pools {
			p.base = map[corev1.ResourceName]int{corev1.ResourceCPU: r.Range(25, 65), corev1.ResourceMemory: r.Range(25, 65)}
		}
		indexer := cache.NewIndexer(cache.MetaNamespaceKeyFunc, cache.Indexers{})
		for _, n := range w.nodes {
			saved := n.role
			switch bias {
			case 1: // everything under
				n.role = [2]int{c18RoleUnder, c18RoleUnder}
			case 2: // nothing over
				for i := range n.role {
					if n.role[i] == c18RoleOver {
						n.role[i] = kit.Pick(r, []int{c18RoleUnder, c18RoleMid})
					}
				}
			case 3: // nothing under
				for i := range n.role {
					if n.role[i] == c18RoleUnder {
						n.role[i] = kit.Pick(r, []int{c18RoleOver, c18RoleMid})
					}
				}
			}
			w.genMetrics(r, n, poolOf(n))
			n.role = saved
		}
		for _, p := range pools {
			if p.dev && r.Pct(80) {
				w.devBoundary(r, p, round)
			}
		}
		for _, n := range w.nodes {
			if n.nm != nil {
				if err := indexer.Add(n.nm); err != nil {
					c.Harness("indexer: %v", err)
				}
			}
			line := fmt.Sprintf("round %d node %s unschedulable=%v metric=%s", round, n.name, n.obj.Spec.Unschedulable, c18StateName[n.metricState])
			if n.nm != nil && n.nm.Status.NodeMetric != nil {
				line += fmt.Sprintf(" system={cpu:%dm memory:%d}", c18QVal(corev1.ResourceCPU, n.nm.Status.NodeMetric.SystemUsage.ResourceList), c18QVal(corev1.ResourceMemory, n.nm.Status.NodeMetric.SystemUsage.ResourceList))
			}
			for _, p := range w.livePods(n.name) {
				line += fmt.Sprintf(" %s[prod=%v filterUntil=%d refuse=%v", p.key(), p.prod, p.filterUntil, p.refuse)
				if p.terminated {
					line += " terminated"
				}
				if p.hasMetric {
					line += fmt.Sprintf(" cpu=%dm", p.m[corev1.ResourceCPU])
					if v, ok := p.m[corev1.ResourceMemory]; ok {
						line += fmt.Sprintf(" memory=%d", v)
					}
				} else {
					line += " no-metric"
				}
				line += "]"
			}
			if n.nm != nil {
				for _, pm := range n.nm.Status.PodsMetric {
					if w.byName[pm.Namespace+"/"+pm.Name] == nil {
						line += fmt.Sprintf(" stale-entry %s[cpu=%dm memory=%d]", pm.Name, c18QVal(corev1.ResourceCPU, pm.PodUsage.ResourceList), c18QVal(corev1.ResourceMemory, pm.PodUsage.ResourceList))
					}
				}
			}
			c.Op("%s", line)
		}
		pl.nodeMetricLister = koordslolisters.NewNodeMetricLister(indexer)
		w.calls, w.okCount, w.filterCalls, w.events = 0, 0, 0, nil
		w.okLimit = []int{1 << 30, 1, 2, 3}[r.Weighted(80, 7, 7, 6)]
		c.Op("round %d Balance (evictor accepts at most %d evictions)", round, w.okLimit)
		status := pl.Balance(context.Background(), nodeObjs)
		for _, ev := range w.events {
			c.Op("round %d   Evict(%s on %s) -> %v  reason=%q", round, ev.pod, ev.node, ev.ok, ev.reason)
			if p := w.byName[ev.pod]; p != nil && argFiltered(p.obj) {
				c.Count("evict_calls_for_pods_excluded_by_plugin_args", 1)
			}
		}
		c.Op("round %d Balance returned %v: %d Evict calls, %d Filter calls", round, status, len(w.events), w.filterCalls)
		c.Count("rounds", 1)
		c.Count("filter_calls", w.filterCalls)
		w.checkRound(round, pools)
		// evicted pods are gone
		gone := map[string]bool{}
		for _, ev := range w.events {
			if ev.ok {
				gone[ev.pod] = true
			}
		}
		if len(gone) > 0 {
			kept := w.pods[:0]
			for _, p := range w.pods {
				if gone[p.key()] {
					delete(w.byName, p.key())
					continue
				}
				kept = append(kept, p)
			}
			w.pods = kept
		}
		checkedBefore += len(w.events)
	}
	if checkedBefore > 0 {
		c.NonTrivial()
	}
	if c.K < 2 {
		ops := c.Ops()
		if len(ops) > 14 {
			ops = ops[:14]
		}
		c.Sample(ops)
	}
}
