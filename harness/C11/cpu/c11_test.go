//go:build verif

package cpuevict

// C11 end-to-end monitor for the CPU strategies: the real cpuEvict() (BECPUEvict, CPUAllocatableEvict,
// CPUEvict in every combination) runs against a fake states informer, a fake metric cache and a recording
// EvictionExecutor with scripted failures / already-evicted pods. The oracle looks only at the recorded
// executor calls, the final pod objects, the metric table and the release target koordinator itself
// computed (buildEvictTask is called once more with the same inputs to read it).
// See /verif/DESIGN.md section 4, C11.
//
// Causal rules of the generated inputs:
//   * every pod has spec.priority set; a pod requests the resources of its koordinator priority class
//     (batch-*, mid-* or native) as the webhook translates them; native CPU requests fit the node;
//   * the pod CPU metric is the usage in cores, absent for pods without a sample; values are chosen so that
//     cores*1000 is an exact integer number of milli-cores; node usage >= sum of pod usage, <= capacity;
//   * node BE metrics (usage / request / real limit, avg and last) with the BE request equal to the sum of
//     the batch-cpu requests of the BE pods;
//   * NodeSLO thresholds respect the validators of the package;
//   * executor: evict-by-API mode remembers successful evictions, kill mode does not; a pod reported as
//     already evicted from the start models a victim of an earlier round that is still terminating.

import (
	"encoding/json"
	"fmt"
	"math"
	"regexp"
	"sort"
	"strconv"
	"strings"
	"testing"
	"time"

	corev1 "k8s.io/api/core/v1"
	"k8s.io/apimachinery/pkg/api/resource"
	metav1 "k8s.io/apimachinery/pkg/apis/meta/v1"
	"k8s.io/apimachinery/pkg/types"
	"k8s.io/component-base/featuregate"
	"k8s.io/klog/v2"
	"k8s.io/utils/ptr"

	apiext "github.com/koordinator-sh/koordinator/apis/extension"
	slov1alpha1 "github.com/koordinator-sh/koordinator/apis/slo/v1alpha1"
	"github.com/koordinator-sh/koordinator/pkg/features"
	"github.com/koordinator-sh/koordinator/pkg/koordlet/metriccache"
	qosmanagerUtil "github.com/koordinator-sh/koordinator/pkg/koordlet/qosmanager/plugins/util"
	"github.com/koordinator-sh/koordinator/pkg/koordlet/statesinformer"
	kit "github.com/koordinator-sh/koordinator/pkg/verifkit"
)

func init() {
	klog.SetOutput(c11Discard{})
	klog.LogToStderr(false)
}

type c11Discard struct{}

func (c11Discard) Write(p []byte) (int, error) { return len(p), nil }

// ---------------------------------------------------------------------------------------------
// fakes

type c11Informer struct {
	statesinformer.StatesInformer // nil: only the three getters below are used by the strategy
	node                          *corev1.Node
	slo                           *slov1alpha1.NodeSLO
	pods                          []*statesinformer.PodMeta
	shuffle                       *kit.Rand
	calls                         int
}

func (i *c11Informer) GetNode() *corev1.Node                { return i.node }
func (i *c11Informer) GetNodeSLO() *slov1alpha1.NodeSLO      { return i.slo }
// GetAllPods behaves like the real pods informer: every call returns fresh deep copies of all pods (the real one
// copies under its lock and iterates a map, so neither pointers nor order are stable between two calls; the
// order here is a deterministic shuffle drawn from the case PRNG).
func (i *c11Informer) GetAllPods() []*statesinformer.PodMeta {
	out := make([]*statesinformer.PodMeta, 0, len(i.pods))
	for _, pm := range i.pods {
		out = append(out, &statesinformer.PodMeta{Pod: pm.Pod.DeepCopy(), CgroupDir: pm.CgroupDir})
	}
	if i.shuffle != nil {
		kit.Shuffle(i.shuffle, out)
	}
	i.calls++
	return out
}

type c11Metric struct {
	avg, last float64
	count     int
}

func c11MetaKey(meta metriccache.MetricMeta) string {
	props := meta.GetProperties()
	keys := make([]string, 0, len(props))
	for k := range props {
		keys = append(keys, k)
	}
	sort.Strings(keys)
	s := meta.GetKind()
	for _, k := range keys {
		s += "|" + k + "=" + props[k]
	}
	return s
}

type c11Table map[string]c11Metric

type c11Cache struct {
	metriccache.MetricCache // nil: only Querier is used
}

func (c *c11Cache) Querier(startTime, endTime time.Time) (metriccache.Querier, error) {
	return c11Querier{}, nil
}

type c11Querier struct{}

func (c11Querier) Query(metriccache.MetricMeta, *metriccache.QueryHints, metriccache.MetricResult) error {
	return nil
}
func (c11Querier) QueryAndClose(metriccache.MetricMeta, *metriccache.QueryHints, metriccache.MetricResult) error {
	return nil
}
func (c11Querier) Close() {}

type c11Factory struct{ table c11Table }

func (f *c11Factory) New(meta metriccache.MetricMeta) metriccache.AggregateResult {
	m, ok := f.table[c11MetaKey(meta)]
	return &c11Result{kind: meta.GetKind(), props: meta.GetProperties(), m: m, ok: ok}
}

type c11Result struct {
	metriccache.AggregateResult // nil: AddSeries is never called, the fake querier adds nothing
	kind                        string
	props                       map[string]string
	m                           c11Metric
	ok                          bool
}

func (r *c11Result) GetKind() string                  { return r.kind }
func (r *c11Result) GetProperties() map[string]string { return r.props }
func (r *c11Result) Count() int {
	if !r.ok {
		return 0
	}
	return r.m.count
}
func (r *c11Result) Value(t metriccache.AggregationType) (float64, error) {
	if !r.ok || r.m.count == 0 {
		return 0, fmt.Errorf("metric input is empty")
	}
	if t == metriccache.AggregationTypeAVG {
		return r.m.avg, nil
	}
	return r.m.last, nil
}
func (r *c11Result) TimeRangeDuration() time.Duration { return time.Minute }

// recording executor

type c11Event struct {
	evict   bool
	pod     *corev1.Pod
	message string
	result  bool
}

type c11Exec struct {
	pending map[types.UID]bool
	apiMode bool
	script  func(call int) bool
	calls   int
	evicted map[types.UID]bool
	events  []c11Event
}

func (e *c11Exec) Evict(pod *corev1.Pod, node *corev1.Node, releaseReason string, message string) bool {
	ok := true
	if !e.pending[pod.UID] {
		ok = e.script(e.calls)
	}
	e.calls++
	if ok {
		e.evicted[pod.UID] = true
	}
	e.events = append(e.events, c11Event{evict: true, pod: pod, message: message, result: ok})
	return ok
}

func (e *c11Exec) IsPodEvicted(pod *corev1.Pod) bool {
	res := e.pending[pod.UID] || (e.apiMode && e.evicted[pod.UID])
	e.events = append(e.events, c11Event{pod: pod, result: res})
	return res
}

// ---------------------------------------------------------------------------------------------
// oracle view of a pod: everything is re-read from the final pod object and the metric table

type c11View struct {
	name      string
	uid       types.UID
	be        bool
	prio      int32
	prioZero  bool
	evPrio    int32
	labelPrio int64
	enabled   bool
	evAnnOutOfRange, evAnnUnparsable bool
	evRaw                            string
	hasPolicy bool
	policyOK  bool // annotation is a well-formed JSON list of strings
	policies  map[string]bool
	hasMetric bool
	used      int64 // milli-cores
	req       map[corev1.ResourceName]int64
	phase     corev1.PodPhase
}

func (v *c11View) String() string {
	return fmt.Sprintf("%s{be=%v prio=%d ev=%d(%q) lp=%d enabled=%v policy=%v/%v%v metric=%v used=%d req=%v phase=%s}", v.name, v.be, v.prio, v.evPrio, v.evRaw, v.labelPrio,
		v.enabled, v.hasPolicy, v.policyOK, c11Keys(v.policies), v.hasMetric, v.used, v.req, v.phase)
}

func c11Keys(m map[string]bool) []string {
	out := make([]string, 0, len(m))
	for k := range m {
		out = append(out, k)
	}
	sort.Strings(out)
	return out
}

func c11ViewOf(pod *corev1.Pod, table c11Table) *c11View {
	v := &c11View{name: pod.Name, uid: pod.UID, policies: map[string]bool{}, req: map[corev1.ResourceName]int64{}, phase: pod.Status.Phase}
	v.be = pod.Labels[apiext.LabelPodQoS] == string(apiext.QoSBE)
	if pod.Spec.Priority != nil {
		v.prio = *pod.Spec.Priority
	}
	v.prioZero = v.prio == 0
	if s, ok := pod.Annotations[apiext.AnnotationPodEvictionPriority]; ok {
		// Documented (apis/extension: "int32 string, negative allowed"; GetPodEvictionPriority: "when the value
		// is invalid, it returns 0 along with a non-nil error", the strategies then "use the default 0"):
		// a decimal integer inside the int32 range is the key, everything else means the implicit 0.
		v.evRaw = s
		switch {
		case !c11DecimalInt.MatchString(s):
			v.evAnnUnparsable = true
		default:
			n, err := strconv.ParseInt(s, 10, 64)
			if err != nil || n > c11MaxI32 || n < c11MinI32 {
				v.evAnnOutOfRange = true
			} else {
				v.evPrio = int32(n)
			}
		}
	}
	v.labelPrio = int64(v.prio)
	if s, ok := pod.Labels[apiext.LabelPodPriority]; ok {
		if n, err := strconv.Atoi(s); err == nil {
			v.labelPrio = int64(n)
		}
	}
	v.enabled = pod.Labels[apiext.LabelPodEvictEnabled] == "true"
	if s, ok := pod.Annotations[apiext.AnnotationPodEvictPolicy]; ok {
		v.hasPolicy = true
		var list []string
		if json.Unmarshal([]byte(s), &list) == nil {
			v.policyOK = true
			for _, p := range list {
				v.policies[p] = true
			}
		}
	}
	meta, _ := metriccache.PodCPUUsageMetric.BuildQueryMeta(metriccache.MetricPropertiesFunc.Pod(string(pod.UID)))
	if m, ok := table[c11MetaKey(meta)]; ok && m.count > 0 {
		v.hasMetric, v.used = true, int64(math.Round(m.last*1000))
	}
	for _, c := range c11Running(pod) {
		for r, q := range c.Resources.Requests {
			if r == corev1.ResourceCPU {
				v.req[r] += q.MilliValue()
			} else {
				v.req[r] += q.Value()
			}
		}
	}
	return v
}

// truth: what removing the pod frees of resource r in the accounting of release type t
func (v *c11View) truth(t qosmanagerUtil.ReleaseTargetType, r corev1.ResourceName) int64 {
	if t == qosmanagerUtil.ReleaseTargetTypeResourceUsed {
		if r == corev1.ResourceCPU {
			return v.used
		}
		return 0
	}
	return v.req[r]
}

// request of the pod in the cpu resource of its class (exactly one of the three is non-zero by construction)
func (v *c11View) cpuRequest() int64 {
	return v.req[apiext.BatchCPU] + v.req[apiext.MidCPU] + v.req[corev1.ResourceCPU]
}

// c11Running: the containers that keep running (and holding their requests) while the pod runs: the regular
// containers and the sidecar init containers (restartPolicy Always). A plain init container has completed.
func c11Running(pod *corev1.Pod) []corev1.Container {
	out := append([]corev1.Container{}, pod.Spec.Containers...)
	for _, ic := range pod.Spec.InitContainers {
		if ic.RestartPolicy != nil && *ic.RestartPolicy == corev1.ContainerRestartPolicyAlways {
			out = append(out, ic)
		}
	}
	return out
}

type c11TaskView struct {
	feature string
	typ     qosmanagerUtil.ReleaseTargetType
	target  map[corev1.ResourceName]int64
	list    []types.UID // koordinator's own candidate list; used for the converse counter only
}

// c11Less: a strictly before b in the published order of the feature; undecided=true when the statement's
// key does not order the pair (ties, pods whose spec.priority is 0 and therefore defaulted by class).
func c11Less(feature string, a, b *c11View) (less, undecided bool) {
	if a.prioZero || b.prioZero {
		return false, true
	}
	type key [4]int64
	var ka, kb key
	switch feature {
	case "BECPUEvict":
		// priority, then usage/request (ratio against the batch-cpu request; 0 without request), higher first
		if a.prio != b.prio {
			return a.prio < b.prio, false
		}
		ra, rb := a.req[apiext.BatchCPU], b.req[apiext.BatchCPU]
		var na, nb, da, db int64 = 0, 0, 1, 1
		if ra > 0 {
			na, da = a.used, ra
		}
		if rb > 0 {
			nb, db = b.used, rb
		}
		// a before b iff na/da > nb/db
		if na*db == nb*da {
			return false, true
		}
		return na*db > nb*da, false
	case "CPUEvict":
		ka, kb = key{int64(a.evPrio), int64(a.prio), a.labelPrio, -a.used}, key{int64(b.evPrio), int64(b.prio), b.labelPrio, -b.used}
	default:
		ka, kb = key{int64(a.evPrio), int64(a.prio), a.labelPrio, -a.cpuRequest()}, key{int64(b.evPrio), int64(b.prio), b.labelPrio, -b.cpuRequest()}
	}
	for i := range ka {
		if ka[i] != kb[i] {
			return ka[i] < kb[i], false
		}
	}
	return false, true
}

type c11Finding struct{ sig, msg string }

type c11Outcome struct {
	attempts, successes, failures, pendingSeen int
	byFeature                                   map[string]int
	orderPairs, orderUndecided                  int
	orderExtreme, orderOverflow                 int
	orderInvalidAnn                             int
	beEvPrioInversions                          int
	met, unmet, stoppedEarly                    int
	succBy                                      map[string][]types.UID
	carriedCover                                int
	stoppedEarlyBy                              map[string]int
	findings                                    []c11Finding
	trace                                       []string
}

func c11Check(views map[types.UID]*c11View, tasks map[string]*c11TaskView, thr *slov1alpha1.ResourceThresholdStrategy, ex *c11Exec,
	carried map[string]map[types.UID]bool, prevEvicted map[types.UID]bool) *c11Outcome {
	// carried[f]: pods that feature f itself evicted successfully in an earlier round of this case and that the
	// pod lister still returns (terminating, or stale without deletionTimestamp): "pods already evicted but still
	// terminating" - what they free counts for f from the start of f's task. prevEvicted: every pod evicted
	// successfully in an earlier round.
	out := &c11Outcome{byFeature: map[string]int{}, stoppedEarlyBy: map[string]int{}, succBy: map[string][]types.UID{}}
	add := func(sig, format string, a ...any) {
		for _, f := range out.findings {
			if f.sig == sig {
				return
			}
		}
		out.findings = append(out.findings, c11Finding{sig, fmt.Sprintf(format, a...)})
	}
	succ, known := map[types.UID]bool{}, map[types.UID]bool{}
	last := map[string]*c11View{}
	attempted := map[string]bool{}
	remaining := func(t *c11TaskView, extra map[types.UID]bool) map[corev1.ResourceName]int64 {
		rem := map[corev1.ResourceName]int64{}
		for r, v := range t.target {
			for uid, p := range views {
				if succ[uid] || known[uid] || extra[uid] {
					v -= p.truth(t.typ, r)
				}
			}
			if v > 0 {
				rem[r] = v
			}
		}
		return rem
	}
	const prefix = qosmanagerUtil.EvictReasonPrefix
	for _, ev := range ex.events {
		p := views[ev.pod.UID]
		if p == nil {
			add("C11/harness/unknown-pod", "executor called for unknown pod %s", ev.pod.Name)
			continue
		}
		if !ev.evict {
			if ev.result {
				if !known[p.uid] {
					out.pendingSeen++
				}
				known[p.uid] = true
			}
			continue
		}
		out.attempts++
		feature := ""
		if i := strings.Index(ev.message, ", kill pod: "); i >= 0 && strings.HasPrefix(ev.message, prefix) {
			feature = ev.message[len(prefix):i]
		}
		t := tasks[feature]
		out.trace = append(out.trace, fmt.Sprintf("Evict(%s,%s)=%v", feature, p.name, ev.result))
		if t == nil && c11KnownFeature[feature] {
			add("C11/minimality/evicted-without-computed-target/"+feature, "%s attempted %s although koordinator computes no release target for this strategy on this input (switched off, invalid configuration, or no pressure)", feature, p.name)
			continue
		}
		if t == nil {
			add("C11/harness/unattributable-evict-call", "cannot attribute Evict(%s) with message %q to a strategy", p.name, ev.message)
			continue
		}
		out.byFeature[feature]++
		// eligibility
		var prioThr *int32
		switch feature {
		case "CPUEvict":
			prioThr = thr.EvictEnabledPriorityThreshold
		case "CPUAllocatableEvict":
			prioThr = thr.AllocatableEvictPriorityThreshold
		}
		allowed := p.be
		if prioThr != nil && p.enabled && (p.prio <= *prioThr) {
			allowed = true
		}
		if !allowed {
			add("C11/eligibility/victim-not-allowed/"+feature, "%s attempted %s which is neither best-effort nor (priority <= threshold %v with eviction enabled)", feature, p, c11Ptr(prioThr))
		}
		if p.hasPolicy && p.policyOK && !p.policies[feature] {
			add("C11/eligibility/victim-opted-out/"+feature, "%s attempted %s whose eviction-policy annotation does not list this policy", feature, p)
		}
		// order
		if prev := last[feature]; prev != nil {
			less, und := c11Less(feature, p, prev)
			out.orderPairs++
			if und {
				out.orderUndecided++
			}
			if !und {
				ka, kb := c11OrderKeys(feature, p), c11OrderKeys(feature, prev)
				ext, ovf := false, false
				for i := range ka {
					ext = ext || c11IsExtreme(ka[i]) || c11IsExtreme(kb[i])
				}
				for i := range ka {
					if ka[i] != kb[i] {
						// the deciding key: would an int32 subtraction of the two values overflow?
						d := ka[i] - kb[i]
						ovf = d > c11MaxI32 || d < c11MinI32
						break
					}
				}
				if ext {
					out.orderExtreme++
				}
				if len(ka) == 3 && (p.evAnnOutOfRange || p.evAnnUnparsable || prev.evAnnOutOfRange || prev.evAnnUnparsable) {
					out.orderInvalidAnn++
				}
				if ovf {
					out.orderOverflow++
				}
			}
			if !und && less {
				add("C11/order/victims-out-of-published-order/"+feature, "%s attempted %s after %s although it sorts strictly before it in the published order", feature, p, prev)
			}
			if feature == "BECPUEvict" && p.prio == prev.prio && p.evPrio < prev.evPrio {
				out.beEvPrioInversions++
			}
		}
		last[feature] = p
		attempted[feature+"/"+string(p.uid)] = true
		// twice
		if succ[p.uid] {
			add("C11/twice/evicted-again-after-success/"+feature, "%s called Evict(%s) although an earlier Evict of the pod succeeded in this round", feature, p.name)
		}
		if prevEvicted[p.uid] {
			add("C11/twice/evicted-again-in-later-round/"+feature, "%s called Evict(%s) although the pod was evicted successfully in an earlier round and is still terminating", feature, p.name)
		}
		if ex.pending[p.uid] {
			add("C11/twice/evict-called-for-already-evicted-pod/"+feature, "%s called Evict(%s) although the executor reports the pod as already evicted", feature, p.name)
		}
		// minimality
		rem := remaining(t, nil)
		if len(rem) == 0 {
			add("C11/minimality/evicted-after-target-met/"+feature, "%s attempted %s although its computed target %v is already covered by what the %d successful + %d already-evicted victims free",
				feature, p.name, t.target, len(succ), len(known))
		} else {
			useful := false
			for r := range rem {
				if p.truth(t.typ, r) > 0 {
					useful = true
				}
			}
			if !useful {
				add("C11/minimality/evicted-pod-releases-nothing-short/"+feature, "%s (target type %s) attempted %s, still short %v, but the pod frees none of it", feature, t.typ, p, rem)
			}
			extra := map[types.UID]bool{}
			for _, uid := range t.list {
				if ex.pending[uid] && !known[uid] {
					extra[uid] = true
				}
			}
			for uid := range carried[feature] {
				if !known[uid] {
					extra[uid] = true
				}
			}
			if len(extra) > 0 && len(remaining(t, extra)) == 0 {
				add("C11/minimality/evicted-while-already-evicted-victims-cover-target/"+feature, "%s attempted %s although target %v is covered once the already-evicted, still terminating victims (later in its list, or evicted by it in an earlier round and still returned by the pod lister) are counted",
					feature, p.name, t.target)
			}
		}
		if ev.result {
			succ[p.uid] = true
			out.successes++
			out.succBy[feature] = append(out.succBy[feature], p.uid)
		} else {
			out.failures++
		}
	}
	for f, t := range tasks {
		if len(carried[f]) > 0 {
			only := map[corev1.ResourceName]int64{}
			for r, v := range t.target {
				for uid := range carried[f] {
					v -= views[uid].truth(t.typ, r)
				}
				if v > 0 {
					only[r] = v
				}
			}
			if len(only) == 0 {
				out.carriedCover++
			}
		}
		rem := remaining(t, nil)
		if len(rem) == 0 {
			out.met++
			continue
		}
		out.unmet++
		// "eviction stops as soon as the resources released by victims ... cover the computed target": the round is
		// over, the target is still short by what the victims really free, and a candidate of the strategy's own
		// list that frees something of what is short was never attempted (not a failed call, not an already
		// evicted pod) - the strategy stopped before the target was covered although it could continue.
		for _, uid := range t.list {
			if succ[uid] || known[uid] || ex.pending[uid] || prevEvicted[uid] || attempted[f+"/"+string(uid)] {
				continue
			}
			for r := range rem {
				if views[uid].truth(t.typ, r) > 0 {
					out.stoppedEarly++
					out.stoppedEarlyBy[f]++
					add("C11/sufficiency/stopped-before-target-covered/"+f, "%s ended with target %v still short by %v (counting what the %d successful + %d already-evicted victims really free) although candidate %s of its own list, which frees %d of %s, was never attempted",
						f, t.target, rem, len(succ), len(known), views[uid], views[uid].truth(t.typ, r), r)
					break
				}
			}
		}
	}
	return out
}

func c11Ptr(p *int32) string {
	if p == nil {
		return "n/a"
	}
	return fmt.Sprint(*p)
}

// ---------------------------------------------------------------------------------------------
// generation

var c11KnownFeature = map[string]bool{"BEMemoryEvict": true, "MemoryAllocatableEvict": true, "MemoryEvict": true, "BECPUEvict": true, "CPUAllocatableEvict": true, "CPUEvict": true}

var c11Features = []featuregate.Feature{features.BECPUEvict, features.CPUAllocatableEvict, features.CPUEvict}

// Legal extremes of the three ordering keys. The eviction-priority annotation and the koordinator.sh/priority
// label are parsed as int32, so the whole int32 range is legal. spec.priority comes from a PriorityClass:
// any negative int32 is legal, user classes go up to 1000000000 and system-node-critical is 2000001000.
var c11ExtremeI32 = []int32{-1 << 31, -1<<31 + 1, -1, 0, 1, 1<<31 - 2, 1<<31 - 1}
var c11ExtremePrio = []int32{-1 << 31, -1 << 31, -1<<31 + 1, -1, 1, 1, 1000000000, 2000001000}

const (
	c11MaxI32 = int64(1<<31 - 1)
	c11MinI32 = -int64(1 << 31)
)

var c11DecimalInt = regexp.MustCompile(`^-?[0-9]+$`)

// annotation values that are not an int32 string: just outside / far outside the range, not a decimal integer
var c11AnnOutOfRange = []string{"2147483648", "-2147483649", "2147483648", "-2147483649", "1000000000000", "-1000000000000", "4294967296", "9223372036854775808"}
var c11AnnUnparsable = []string{"high", "", " 5", "5.0", "0x10", "1e3", "5 "}

func c11IsExtreme(x int64) bool { return x <= c11MinI32+1 || x >= 1000000000 }

// c11OrderKeys: the integer keys of the feature's published comparator (before usage/request).
func c11OrderKeys(feature string, v *c11View) []int64 {
	if feature == "BECPUEvict" {
		return []int64{int64(v.prio)}
	}
	return []int64{int64(v.evPrio), int64(v.prio), v.labelPrio}
}

// c11GenPod: mode 0 ordinary; 1/2/3 = boundary-biased eviction-priority annotation / spec.priority /
// koordinator.sh/priority label. In modes 2 and 3 the keys that precede the biased key in the published order
// are equal for all pods of the case (no eviction-priority annotation; mode 3: one shared spec.priority), so
// that the biased key decides the order. Pods of a biased case are made candidates of every strategy
// (eviction enabled, no policy annotation, running, sample present) with high probability.
func c11GenPod(r *kit.Rand, i int, mode int, sharedPrio int32) (*corev1.Pod, *float64) {
	name, ns := fmt.Sprintf("p%d", i), "default"
	if r.Pct(20) {
		ns = "team-a"
	}
	labels, ann := map[string]string{}, map[string]string{}
	var prio int32
	var cpuRes, memRes corev1.ResourceName = corev1.ResourceCPU, corev1.ResourceMemory
	pickIn := func(lo, hi int32) int32 {
		return kit.Pick(r, []int32{lo, lo, lo + 1, lo + 500, hi - 1, hi, lo + int32(r.Intn(int(hi-lo)+1))})
	}
	branch, forced := r.Weighted(40, 18, 12, 15, 15), false
	if mode == 2 && r.Pct(65) {
		branch, forced, prio = 4, true, kit.Pick(r, c11ExtremePrio)
	}
	if mode == 3 {
		forced, prio = true, sharedPrio
		branch = 4
		if sharedPrio >= apiext.PriorityBatchValueMin && sharedPrio <= apiext.PriorityBatchValueMax {
			branch = 0
		}
	}
	switch branch {
	case 0: // koord-batch
		if !forced {
			prio = pickIn(apiext.PriorityBatchValueMin, apiext.PriorityBatchValueMax)
		}
		labels[apiext.LabelPodQoS] = string(apiext.QoSBE)
		cpuRes, memRes = apiext.BatchCPU, apiext.BatchMemory
	case 1: // koord-mid
		prio = pickIn(apiext.PriorityMidValueMin, apiext.PriorityMidValueMax)
		labels[apiext.LabelPodQoS] = string(kit.Pick(r, []apiext.QoSClass{apiext.QoSLS, apiext.QoSLS, apiext.QoSLS, apiext.QoSBE}))
		cpuRes, memRes = apiext.MidCPU, apiext.MidMemory
	case 2: // koord-free
		prio = pickIn(apiext.PriorityFreeValueMin, apiext.PriorityFreeValueMax)
		if r.Pct(70) {
			labels[apiext.LabelPodQoS] = string(apiext.QoSBE)
		}
	case 3: // koord-prod
		prio = pickIn(apiext.PriorityProdValueMin, apiext.PriorityProdValueMax)
		labels[apiext.LabelPodQoS] = string(kit.Pick(r, []apiext.QoSClass{apiext.QoSLS, apiext.QoSLS, apiext.QoSLSR, apiext.QoSLSR, apiext.QoSLSE, apiext.QoSSystem}))
	default: // priority outside the koordinator bands (custom priority class or none)
		if !forced {
			prio = kit.Pick(r, []int32{0, 100, 100, 120, 1000, 2999, 4000, 6500})
		}
		switch r.Weighted(40, 30, 30) {
		case 0:
			// QoS BE without a koordinator priority band defaults to the batch class
			labels[apiext.LabelPodQoS] = string(apiext.QoSBE)
			cpuRes, memRes = apiext.BatchCPU, apiext.BatchMemory
		case 1:
			labels[apiext.LabelPodQoS] = string(apiext.QoSLS)
		}
	}
	if r.Pct(12) {
		// koordinator.sh/priority-class (for pods that already run with another priority): always the class
		// whose resources the pod requests
		switch {
		case cpuRes == apiext.BatchCPU:
			labels[apiext.LabelPodPriorityClass] = string(apiext.PriorityBatch)
		case cpuRes == apiext.MidCPU:
			labels[apiext.LabelPodPriorityClass] = string(apiext.PriorityMid)
		case branch == 2:
			labels[apiext.LabelPodPriorityClass] = string(apiext.PriorityFree)
		case branch == 3:
			labels[apiext.LabelPodPriorityClass] = string(apiext.PriorityProd)
		}
	}
	if r.Pct(70) || (mode > 0 && r.Pct(85)) {
		labels[apiext.LabelPodEvictEnabled] = "true"
	} else if r.Pct(30) {
		labels[apiext.LabelPodEvictEnabled] = "false"
	}
	switch {
	case mode == 1 && r.Pct(75):
		switch r.Weighted(60, 25, 15) {
		case 0:
			ann[apiext.AnnotationPodEvictionPriority] = fmt.Sprint(kit.Pick(r, c11ExtremeI32))
		case 1:
			ann[apiext.AnnotationPodEvictionPriority] = kit.Pick(r, c11AnnOutOfRange)
		default:
			ann[apiext.AnnotationPodEvictionPriority] = kit.Pick(r, c11AnnUnparsable)
		}
	case mode >= 2:
		// equal (absent) for all pods of the case
	case r.Pct(30):
		ann[apiext.AnnotationPodEvictionPriority] = fmt.Sprint(kit.Pick(r, []int32{-100, -1, 1, 5, 100}))
	}
	if mode == 3 && r.Pct(70) {
		// a label value cannot start with '-': only the non-negative extremes are legal; negative keys come
		// from pods without the label (the key then defaults to spec.priority, shared and possibly negative)
		labels[apiext.LabelPodPriority] = fmt.Sprint(kit.Pick(r, []int32{0, 1, 1<<31 - 2, 1<<31 - 1, 1<<31 - 1}))
	} else if r.Pct(20) {
		labels[apiext.LabelPodPriority] = fmt.Sprint(r.Intn(10000))
	}
	if r.Pct(25) && (mode == 0 || r.Pct(10)) {
		if r.Pct(12) {
			ann[apiext.AnnotationPodEvictPolicy] = kit.Pick(r, []string{"", "[", "CPUEvict", `{"CPUEvict":true}`, `"BECPUEvict"`})
		} else {
			list := []string{}
			for _, f := range []string{"BECPUEvict", "CPUAllocatableEvict", "CPUEvict", "MemoryEvict", "BEMemoryEvict"} {
				if r.Pct(45) {
					list = append(list, f)
				}
			}
			b, _ := json.Marshal(list)
			ann[apiext.AnnotationPodEvictPolicy] = string(b)
		}
	}
	var containers []corev1.Container
	nc := 1 + r.Weighted(50, 35, 10, 5)
	extended := cpuRes != corev1.ResourceCPU
	nInit := 0
	if extended && r.Pct(20) {
		nInit = 1 + r.Intn(2)
	}
	var initContainers []corev1.Container
	for j := 0; j < nc+nInit; j++ {
		req := corev1.ResourceList{}
		if !r.Pct(15) {
			v := kit.Pick(r, []int64{1, 1 << 20, 512 << 20, 1 << 30, 2<<30 - 1, 4 << 30, 16 << 30, r.Int63n(8<<30) + 1})
			req[memRes] = *resource.NewQuantity(v, resource.BinarySI)
		}
		if !r.Pct(15) {
			v := kit.Pick(r, []int64{1, 500, 1000, 2000, 16000})
			if cpuRes == corev1.ResourceCPU {
				req[cpuRes] = *resource.NewMilliQuantity(v, resource.DecimalSI)
			} else {
				req[cpuRes] = *resource.NewQuantity(v, resource.DecimalSI)
			}
		}
		if j >= nc {
			// init containers only for pods requesting batch/mid resources (for native resources the effective
			// pod request follows the max(init, sum) formula, which the statement does not spell out)
			ic := corev1.Container{Name: fmt.Sprintf("i%d", j), Resources: corev1.ResourceRequirements{Requests: req}}
			if r.Pct(60) {
				ic.RestartPolicy = ptr.To(corev1.ContainerRestartPolicyAlways) // sidecar
			}
			initContainers = append(initContainers, ic)
			continue
		}
		containers = append(containers, corev1.Container{Name: fmt.Sprintf("c%d", j), Resources: corev1.ResourceRequirements{Requests: req}})
	}
	phase := []corev1.PodPhase{corev1.PodRunning, corev1.PodPending, corev1.PodSucceeded, corev1.PodFailed, corev1.PodUnknown}[r.Weighted(86, 5, 4, 3, 2)]
	if mode > 0 && r.Pct(90) {
		phase = corev1.PodRunning
	}
	pod := &corev1.Pod{
		TypeMeta:   metav1.TypeMeta{Kind: "Pod"},
		ObjectMeta: metav1.ObjectMeta{Name: name, Namespace: ns, UID: types.UID(fmt.Sprintf("uid-%d", i)), Labels: labels, Annotations: ann},
		Spec:       corev1.PodSpec{Priority: ptr.To(prio), Containers: containers, InitContainers: initContainers},
		Status:     corev1.PodStatus{Phase: phase},
	}
	if mode == 0 && r.Pct(4) {
		// a pod that somebody else is already deleting (not a victim of the evictor)
		pod.DeletionTimestamp = &metav1.Time{Time: time.Unix(1690000000, 0)}
		pod.DeletionGracePeriodSeconds = ptr.To(int64(30))
	}
	var used *float64
	if r.Pct(85) || (mode > 0 && r.Pct(80)) {
		m := kit.Pick(r, []int64{0, 0, 1, 5, 100, 250, 999, 1000, 1001, 4000, int64(r.Range(1, 8000)), int64(r.Range(1, 8000))})
		// only values whose conversion cores*1000 -> milli is exact, so that the truth is unambiguous
		for int64(float64(m)/1000*1000) != m {
			m++
		}
		v := float64(m) / 1000
		if m > 0 && r.Pct(5) {
			v = 0.0004 // an idle pod: sample present, less than one milli-core
		}
		used = &v
	}
	return pod, used
}

type c11Case struct {
	extreme int // 0 ordinary, 1/2/3 boundary-biased eviction-priority / spec.priority / priority label
	nodeKey string
	node    *corev1.Node
	thr     *slov1alpha1.ResourceThresholdStrategy
	pods    []*corev1.Pod
	table   c11Table
	enabled []featuregate.Feature
}

func c11GenCase(r *kit.Rand) *c11Case {
	cs := &c11Case{table: c11Table{}}
	var sharedPrio int32
	if r.Pct(15) {
		cs.extreme = 1 + r.Intn(3)
		sharedPrio = kit.Pick(r, []int32{5500, 100, -1 << 31, -1 << 31, -1, -1, 1})
	}
	n := []int{0, 1, r.Range(2, 12), r.Range(13, 24), 40}[r.Weighted(2, 3, 86, 7, 2)]
	var sumUsedMilli int64
	var beReqMilli int64
	reqSum := map[corev1.ResourceName]int64{}
	for i := 0; i < n; i++ {
		pod, used := c11GenPod(r, i, cs.extreme, sharedPrio)
		if i > 0 && pod.Namespace != cs.pods[i-1].Namespace && cs.pods[i-1].Name == fmt.Sprintf("p%d", i-1) && r.Pct(40) {
			pod.Name = cs.pods[i-1].Name // same name in another namespace (the UID stays distinct)
		}
		cs.pods = append(cs.pods, pod)
		if used != nil {
			meta, _ := metriccache.PodCPUUsageMetric.BuildQueryMeta(metriccache.MetricPropertiesFunc.Pod(string(pod.UID)))
			cs.table[c11MetaKey(meta)] = c11Metric{avg: *used, last: *used, count: 1}
			sumUsedMilli += int64(*used*1000) + 1
		}
		for _, c := range c11Running(pod) {
			for rn, q := range c.Resources.Requests {
				if rn == corev1.ResourceCPU {
					reqSum[rn] += q.MilliValue()
				} else {
					reqSum[rn] += q.Value()
				}
				if rn == apiext.BatchCPU && pod.Labels[apiext.LabelPodQoS] == string(apiext.QoSBE) {
					beReqMilli += q.Value()
				}
			}
		}
	}
	// the node is large enough for what runs on it (native requests fit the allocatable, node usage
	// includes every pod's usage)
	need := sumUsedMilli
	if v := reqSum[corev1.ResourceCPU]; v > need {
		need = v
	}
	cores := int64(0)
	for _, v := range []int64{2, 4, 8, 16, 32, 64, 100, 128, 256} {
		if v*1000 >= need && (cores == 0 || r.Pct(35)) {
			cores = v
		}
	}
	if cores == 0 {
		cores = need/1000 + 2
	}
	capMilli := cores * 1000
	alloc := corev1.ResourceList{
		corev1.ResourceCPU:    *resource.NewQuantity(cores, resource.DecimalSI),
		corev1.ResourceMemory: resource.MustParse("256Gi"),
	}
	factor := func(sum int64) int64 {
		if cs.extreme > 0 && r.Pct(70) {
			return sum / 2 // over-committed: the allocatable strategies get a target
		}
		return kit.Pick(r, []int64{0, sum / 2, sum * 9 / 10, sum, sum + 1, sum * 12 / 10, sum*2 + 1, 1000, 16000})
	}
	if r.Pct(75) {
		alloc[apiext.BatchCPU] = *resource.NewQuantity(factor(reqSum[apiext.BatchCPU]), resource.DecimalSI)
	}
	if r.Pct(60) {
		alloc[apiext.MidCPU] = *resource.NewQuantity(factor(reqSum[apiext.MidCPU]), resource.DecimalSI)
	}
	cs.node = &corev1.Node{ObjectMeta: metav1.ObjectMeta{Name: "c11-node"}, Status: corev1.NodeStatus{
		Capacity:    corev1.ResourceList{corev1.ResourceCPU: *resource.NewQuantity(cores, resource.DecimalSI), corev1.ResourceMemory: resource.MustParse("256Gi")},
		Allocatable: alloc,
	}}
	if r.Pct(3) {
		cs.node.Status.Allocatable = nil // node status without allocatable
	}
	thrPct := int64(r.Range(30, 92))
	if r.Pct(12) {
		thrPct = int64(kit.Pick(r, []int{1, 2, 5, 29, 93, 99, 100}))
	}
	lowSat := int64(r.Range(1, 60))
	cs.thr = &slov1alpha1.ResourceThresholdStrategy{
		Enable:                              ptr.To(true),
		CPUEvictThresholdPercent:            ptr.To(thrPct),
		EvictEnabledPriorityThreshold:       ptr.To(kit.Pick(r, []int32{-1, 0, 100, 100, 3999, 3999, 5500, 5500, 5999, 5999, 7999, 7999, 9999, 9999})),
		CPUAllocatableEvictThresholdPercent: ptr.To(int64(kit.Pick(r, []int{0, 1, 40, 40, 50, 50, 80, 80, 90, 90, 100, 100, 110, 110, 200}))),
		AllocatableEvictPriorityThreshold:   ptr.To(kit.Pick(r, []int32{-1, 0, 120, 120, 4999, 4999, 5000, 5000, 5500, 5500, 5999, 5999, 7500, 7500, 7999, 7999})),
		CPUEvictBESatisfactionLowerPercent:  ptr.To(lowSat),
		CPUEvictBESatisfactionUpperPercent:  ptr.To(lowSat + int64(r.Range(0, int(99-lowSat)))),
	}
	if cs.extreme > 0 {
		// keep the pods with extreme keys eligible: any spec.priority passes the used-threshold strategies
		// in half of the cases; the allocatable threshold is capped at 7999 by the validator
		if r.Pct(50) {
			cs.thr.EvictEnabledPriorityThreshold = ptr.To(int32(1<<31 - 1))
		}
		cs.thr.AllocatableEvictPriorityThreshold = ptr.To(int32(7999))
	}
	if r.Pct(60) {
		cs.thr.CPUEvictLowerPercent = ptr.To(thrPct - int64(r.Range(1, 25)))
	}
	cs.thr.CPUAllocatableEvictLowerPercent = ptr.To(*cs.thr.CPUAllocatableEvictThresholdPercent - int64(r.Range(1, 30)))
	if r.Pct(40) {
		cs.thr.CPUEvictBEUsageThresholdPercent = ptr.To(int64(kit.Pick(r, []int{0, 50, 80, 90, 100})))
	}
	if r.Pct(30) {
		cs.thr.CPUEvictPolicy = slov1alpha1.EvictByAllocatablePolicy
	} else if r.Pct(30) {
		cs.thr.CPUEvictPolicy = slov1alpha1.EvictByRealLimitPolicy
	}
	window := int64(1)
	if r.Pct(30) {
		window = int64(kit.Pick(r, []int{1, 30, 60, 300}))
		cs.thr.CPUEvictTimeWindowSeconds = ptr.To(window)
	}
	// node usage in cores: mostly at or above the threshold line
	var nodeMilli int64
	uw := []int{15, 20, 35, 30}
	if cs.extreme > 0 {
		uw = []int{0, 10, 80, 10}
	}
	switch r.Weighted(uw...) {
	case 0:
		nodeMilli = capMilli * (thrPct - 1) / 100
	case 1:
		nodeMilli = capMilli * thrPct / 100
	case 2:
		nodeMilli = capMilli * (thrPct + int64(r.Range(1, 8))) / 100
	default:
		nodeMilli = sumUsedMilli + r.Int63n(capMilli/4+1)
	}
	if nodeMilli < sumUsedMilli {
		nodeMilli = sumUsedMilli
	}
	if nodeMilli > capMilli {
		nodeMilli = capMilli
	}
	nodeMeta, _ := metriccache.NodeCPUUsageMetric.BuildQueryMeta(nil)
	cs.nodeKey = c11MetaKey(nodeMeta)
	if r.Pct(95) {
		cs.table[cs.nodeKey] = c11Metric{avg: float64(nodeMilli) / 1000, last: float64(nodeMilli) / 1000, count: 1}
	}
	// node BE metrics (milli-cores): request = what the BE pods request, real limit low enough to starve
	// them in most cases, usage close to the limit in most cases
	if r.Pct(90) {
		req := float64(beReqMilli)
		if r.Pct(15) {
			req = float64(beReqMilli + int64(r.Range(-500, 2000)))
			if req < 0 {
				req = 0
			}
		}
		limit := req * float64(kit.Pick(r, []int{0, 5, 20, 40, 60, 61, 90, 120})) / 100
		if r.Pct(15) {
			limit = float64(kit.Pick(r, []int{0, 500, 999, 1000, 4000}))
		}
		usage := limit * float64(kit.Pick(r, []int{50, 89, 90, 95, 100, 100})) / 100
		count := int(window)
		if r.Pct(15) {
			count = int(window) / 4
		}
		set := func(alloc metriccache.MetricPropertyValue, avg, last float64) {
			meta, _ := metriccache.NodeBEMetric.BuildQueryMeta(metriccache.MetricPropertiesFunc.NodeBE(string(metriccache.BEResourceCPU), string(alloc)))
			cs.table[c11MetaKey(meta)] = c11Metric{avg: avg, last: last, count: count}
		}
		lastReq, lastLimit := req, limit
		if r.Pct(25) {
			lastReq = req * float64(kit.Pick(r, []int{50, 100, 150})) / 100
			lastLimit = limit * float64(kit.Pick(r, []int{50, 100, 150})) / 100
		}
		set(metriccache.BEResourceAllocationUsage, usage, lastLimit*float64(kit.Pick(r, []int{50, 90, 100}))/100)
		set(metriccache.BEResourceAllocationRequest, req, lastReq)
		set(metriccache.BEResourceAllocationRealLimit, limit, lastLimit)
	}
	switch r.Weighted(92, 3, 2, 3) {
	case 1:
		cs.thr.Enable = ptr.To(false) // the NodeSLO switches the strategies off
	case 2:
		cs.thr.Enable = nil
	case 3:
		// a configuration the package's validators reject
		switch r.Intn(3) {
		case 0:
			cs.thr.CPUEvictThresholdPercent = nil
		case 1:
			cs.thr.CPUEvictLowerPercent = ptr.To(thrPct + int64(r.Intn(3)))
		default:
			cs.thr.EvictEnabledPriorityThreshold = nil
			cs.thr.AllocatableEvictPriorityThreshold = nil
		}
	}
	for len(cs.enabled) == 0 {
		for _, f := range c11Features {
			if r.Pct(55) {
				cs.enabled = append(cs.enabled, f)
			}
		}
	}
	return cs
}

func c11TargetString(t *c11TaskView) string {
	var parts []string
	for r, v := range t.target {
		parts = append(parts, fmt.Sprintf("%s=%d", r, v))
	}
	sort.Strings(parts)
	return fmt.Sprintf("%s{type=%s target={%s} candidates=%d}", t.feature, t.typ, strings.Join(parts, ","), len(t.list))
}

func TestVerifC11CPUEvict(t *testing.T) {
	oldFactory := metriccache.DefaultAggregateResultFactory
	oldGates := map[string]bool{}
	for _, f := range c11Features {
		oldGates[string(f)] = features.DefaultKoordletFeatureGate.Enabled(f)
	}
	defer func() {
		metriccache.DefaultAggregateResultFactory = oldFactory
		_ = features.DefaultMutableKoordletFeatureGate.SetFromMap(oldGates)
	}()
	kit.Run(t, kit.Config{Property: "C11", Unit: "cpu-e2e", Quick: 20000, Thorough: 800000,
		Rule: "cpuEvict() end to end: 2-12 pods (koord-batch/mid/free/prod and out-of-band priorities, QoS, eviction-enabled label, eviction-priority and eviction-policy annotations incl. malformed, sub-priority label, phases, 1-2 containers, cpu sample present/absent/zero/sub-milli), node cores and batch/mid-cpu allocatable around the pods' requests, usage thresholds 30-92% with node usage below/at/above the line, BE satisfaction config with node BE usage/request/limit metrics (avg and last, enough or too few samples, both evict policies), every non-empty subset of {BECPUEvict, CPUAllocatableEvict, CPUEvict}; executor script none / all fail / first only / every k-th / random, 0-100% already evicted; distinct = (features enabled, features with a target, attempts class, failures, already-evicted counted, met/unmet); non-trivial = at least one Evict attempt",
	}, func(c *kit.Case) {
		r := c.R
		cs := c11GenCase(r)
		gates := map[string]bool{}
		for _, f := range c11Features {
			gates[string(f)] = false
		}
		for _, f := range cs.enabled {
			gates[string(f)] = true
		}
		if err := features.DefaultMutableKoordletFeatureGate.SetFromMap(gates); err != nil {
			c.Harness("feature gates: %v", err)
		}
		metriccache.DefaultAggregateResultFactory = &c11Factory{table: cs.table}
		inf := &c11Informer{shuffle: r.Fork(), node: cs.node, slo: &slov1alpha1.NodeSLO{Spec: slov1alpha1.NodeSLOSpec{ResourceUsedThresholdWithBE: cs.thr}}}
		for _, p := range cs.pods {
			inf.pods = append(inf.pods, &statesinformer.PodMeta{Pod: p})
		}
		kind := r.Weighted(30, 8, 12, 20, 30)
		k, off, pct := r.Range(2, 4), r.Intn(4), kit.Pick(r, []int{10, 30, 50, 80})
		if cs.extreme > 0 {
			// many attempts per task, so that many pairs of the sorted candidate list are observed
			kind, pct = []int{0, 1, 1, 1, 4, 4}[r.Intn(6)], 80
		}
		fr := r.Fork()
		var desc string
		var script func(call int) bool
		switch kind {
		case 0:
			desc, script = "none", func(int) bool { return true }
		case 1:
			desc, script = "all-fail", func(int) bool { return false }
		case 2:
			desc, script = "first-only", func(call int) bool { return call != 0 }
		case 3:
			desc, script = fmt.Sprintf("every-%d-th(+%d)", k, off), func(call int) bool { return (call+off)%k != 0 }
		default:
			desc, script = fmt.Sprintf("random-%d%%", pct), func(int) bool { return !fr.Pct(pct) }
		}
		ex := &c11Exec{pending: map[types.UID]bool{}, apiMode: r.Bool(), script: script, evicted: map[types.UID]bool{}}
		// 40% of the cases continue with 1-2 further rounds after the cooling time; the executor then evicts by API
		// (the mode in which the Evictor remembers its victims)
		moreRounds := 0
		if r.Pct(40) {
			moreRounds = 1 + r.Weighted(70, 30)
			ex.apiMode = true
		}
		rr := r.Fork()
		pq := kit.Pick(r, []int{0, 0, 0, 0, 15, 15, 15, 40, 40, 100})
		if cs.extreme > 0 {
			pq = 0
			c.Count("cases_boundary_biased_keys", 1)
		}
		views := map[types.UID]*c11View{}
		switch {
		case len(cs.pods) <= 1:
			c.Count("dim_cases_with_0_or_1_pods", 1)
		case len(cs.pods) > 12:
			c.Count("dim_cases_with_more_than_12_pods", 1)
		}
		if cs.node.Status.Allocatable == nil {
			c.Count("dim_cases_node_without_allocatable", 1)
		}
		for _, p := range cs.pods {
			if r.Pct(pq) {
				ex.pending[p.UID] = true
			}
			views[p.UID] = c11ViewOf(p, cs.table)
			if len(p.Spec.InitContainers) > 0 {
				c.Count("dim_pods_with_init_or_sidecar_containers", 1)
			}
			if _, ok := p.Labels[apiext.LabelPodPriorityClass]; ok {
				c.Count("dim_pods_with_priority_class_label", 1)
			}
			if p.DeletionTimestamp != nil {
				c.Count("dim_pods_deleted_by_somebody_else", 1)
			}
			if p.Name != fmt.Sprintf("p%s", strings.TrimPrefix(string(p.UID), "uid-")) {
				c.Count("dim_pods_sharing_a_name_across_namespaces", 1)
			}
			if views[p.UID].evAnnOutOfRange {
				c.Count("annotation_out_of_range", 1)
			}
			if views[p.UID].evAnnUnparsable {
				c.Count("annotation_unparsable", 1)
			}
		}
		m := &cpuEvictor{evictInterval: time.Second, evictCoolingInterval: 20 * time.Second, metricCollectInterval: kit.Pick(r, []time.Duration{time.Second, time.Second, time.Second, 10 * time.Second, time.Minute}),
			statesInformer: inf, metricCache: &c11Cache{}, evictExecutor: ex}

		thrJSON, _ := json.Marshal(cs.thr)
		c.Op("node capacity(milli)=%v allocatable=%v thresholds=%s", cs.node.Status.Capacity.Cpu().MilliValue(), c11RL(cs.node.Status.Allocatable), thrJSON)
		var mk []string
		for k := range cs.table {
			if !strings.Contains(k, "pod_uid") {
				mk = append(mk, k)
			}
		}
		sort.Strings(mk)
		for _, k := range mk {
			c.Op("metric %s avg=%v last=%v count=%d", k, cs.table[k].avg, cs.table[k].last, cs.table[k].count)
		}
		for _, p := range cs.pods {
			c.Op("pod %s alreadyEvicted=%v", views[p.UID], ex.pending[p.UID])
		}
		feats := ""
		for _, f := range cs.enabled {
			feats += string(f) + ","
		}
		computeTasks := func() map[string]*c11TaskView {
			tasks := map[string]*c11TaskView{}
			// the release targets koordinator computes for this input (same call memoryEvict makes)
			for _, f := range cs.enabled {
				if cs.thr.Enable == nil || !*cs.thr.Enable {
				c.Count("feature_switched_off_by_nodeslo", 1)
				continue
			}
			task, err := m.buildEvictTask(f, inf.slo, cs.node)
				if err != nil || task == nil {
					c.Count("feature_without_target", 1)
					continue
				}
				tv := &c11TaskView{feature: string(f), typ: task.ReleaseTarget, target: map[corev1.ResourceName]int64{}}
				for rn, q := range task.ToReleaseResource {
					if rn == corev1.ResourceCPU {
						tv.target[rn] = q.MilliValue()
					} else {
						tv.target[rn] = q.Value()
					}
				}
				for _, info := range task.SortedEvictPods {
					tv.list = append(tv.list, info.Pod.UID)
				}
				tasks[string(f)] = tv
				c.Count("target_"+string(f), 1)
				c.Op("computed %s", c11TargetString(tv))
			}
			return tasks
		}
		tasks := computeTasks()
		ex.events = nil // buildEvictTask does not touch the executor; keep the log clean anyway
		c.Op("enabled=%s script=%s apiMode=%v boundaryBiasedKey=%d", feats, desc, ex.apiMode, cs.extreme)
		m.cpuEvict()
		out := c11Check(views, tasks, cs.thr, ex, nil, nil)
		c.Op("calls=%v", out.trace)
		c.Count("evict_attempts", out.attempts)
		c.Count("evict_success", out.successes)
		c.Count("evict_failed", out.failures)
		c.Count("already_evicted_counted", out.pendingSeen)
		c.Count("oracle_attempt_checks", out.attempts)
		c.Count("order_pairs_checked", out.orderPairs-out.orderUndecided)
		c.Count("order_pairs_undecided", out.orderUndecided)
		c.Count("order_pairs_with_extreme_keys", out.orderExtreme)
		c.Count("order_pairs_with_invalid_eviction_priority_annotation", out.orderInvalidAnn)
		c.Count("order_pairs_with_overflowing_key_difference", out.orderOverflow)
		if out.orderOverflow > 0 {
			c.Count("cases_with_overflowing_key_difference", 1)
		}
		c.Count("be_pairs_against_eviction_priority_annotation", out.beEvPrioInversions)
		c.Count("tasks_target_met", out.met)
		c.Count("tasks_target_unmet", out.unmet)
		c.Count("untried_useful_candidates_when_stopped_short", out.stoppedEarly)
		for f, nA := range out.byFeature {
			c.Count("attempts_"+f, nA)
		}
		for f, nA := range out.stoppedEarlyBy {
			c.Count("stopped_before_target_covered_"+f, nA)
		}
		if out.attempts > 0 {
			c.NonTrivial()
		}
		tf := ""
		for _, f := range c11Features {
			if tasks[string(f)] != nil {
				tf += string(f) + ","
			}
		}
		c.Seen(feats, tf, (out.attempts+1)/2, out.failures > 0, out.pendingSeen > 0, out.met, out.unmet, kind)
		if c.K < 2 {
			c.Sample(map[string]any{"enabled": feats, "targets": tf, "script": desc, "calls": out.trace})
		}
		for _, f := range out.findings {
			if strings.HasPrefix(f.sig, "C11/harness/") {
				c.Harness("%s", f.msg)
			}
			c.Report(f.sig, "%s", f.msg)
		}
		// ---- further rounds over the same node: the victims of the earlier rounds are still there, terminating
		carried := map[string]map[types.UID]bool{}
		prevEvicted := map[types.UID]bool{}
		marked := map[types.UID]bool{}
		reported := map[string]bool{}
		for _, f := range out.findings {
			reported[f.sig] = true
		}
		prev := out
		for round := 2; round <= 1+moreRounds; round++ {
			for f, uids := range prev.succBy {
				for _, uid := range uids {
					if carried[f] == nil {
						carried[f] = map[types.UID]bool{}
					}
					carried[f][uid] = true
					prevEvicted[uid] = true
				}
			}
			if len(prevEvicted) == 0 {
				break
			}
			// what the pod lister returns now: the API server set a deletionTimestamp on an evicted pod, which
			// keeps running (and using resources) during its grace period; 20% of the victims are still seen
			// through a stale informer object without the timestamp
			for i, pm := range inf.pods {
				uid := pm.Pod.UID
				if !prevEvicted[uid] || marked[uid] {
					continue
				}
				marked[uid] = true
				if rr.Pct(80) {
					cp := pm.Pod.DeepCopy()
					cp.DeletionTimestamp = &metav1.Time{Time: time.Unix(1700000000, 0)}
					cp.DeletionGracePeriodSeconds = ptr.To(int64(30))
					inf.pods[i] = &statesinformer.PodMeta{Pod: cp}
					c.Count("terminating_victims_with_deletion_timestamp", 1)
					c.Op("round %d: lister returns %s with deletionTimestamp", round, pm.Pod.Name)
				} else {
					c.Count("stale_victims_without_deletion_timestamp", 1)
					c.Op("round %d: lister still returns %s without deletionTimestamp (stale)", round, pm.Pod.Name)
				}
			}
			m.lastEvictTime = time.Time{} // the cooling time has elapsed (no wall clock: state reset)
			tasks = computeTasks()
			ex.events = nil
			c.Op("round %d", round)
			m.cpuEvict()
			o := c11Check(views, tasks, cs.thr, ex, carried, prevEvicted)
			c.Op("round %d calls=%v", round, o.trace)
			c.Count("e2e_later_rounds", 1)
			c.Count("later_round_attempts", o.attempts)
			c.Count("later_round_tasks_covered_by_earlier_victims", o.carriedCover)
			c.Count("evict_attempts", o.attempts)
			c.Count("evict_success", o.successes)
			c.Count("evict_failed", o.failures)
			c.Count("already_evicted_counted", o.pendingSeen)
			c.Count("oracle_attempt_checks", o.attempts)
			c.Count("order_pairs_checked", o.orderPairs-o.orderUndecided)
			c.Count("tasks_target_met", o.met)
			c.Count("tasks_target_unmet", o.unmet)
			c.Count("untried_useful_candidates_when_stopped_short", o.stoppedEarly)
			for _, f := range o.findings {
				if strings.HasPrefix(f.sig, "C11/harness/") {
					c.Harness("%s", f.msg)
				}
				if !reported[f.sig] {
					reported[f.sig] = true
					c.Report(f.sig, "round %d: %s", round, f.msg)
				}
			}
			prev = o
		}
	})
}

func c11RL(rl corev1.ResourceList) string {
	var parts []string
	for r, q := range rl {
		parts = append(parts, fmt.Sprintf("%s=%d", r, q.Value()))
	}
	sort.Strings(parts)
	return strings.Join(parts, ",")
}
