//go:build verif

package util

// C11 monitor with the production source of truth for "already evicted": the REAL Evictor (NewEvictor over a
// fake clientset, eviction version policy/v1 as in the package's evictor_test.go) behind the REAL executor that
// InitializeEvictionExecutor returns for evict-by-API mode (DefaultEvictionExecutor). A reactor on the fake
// clientset scripts the outcome of every eviction request per pod and per round (success, 429 TooManyRequests
// as a PodDisruptionBudget answers, NotFound, generic error) and records every request: that record is the
// ground truth (a pod is evicted iff one of its eviction requests succeeded at the API).
//
// 2-3 successive KillAndEvictPods rounds run over the same pods, the same tasks and the same Evictor. The
// Evictor's cache expires by wall clock after 2 minutes; all rounds of a case run within milliseconds, i.e.
// within the TTL, and no oracle decision reads the clock.
//
// Oracle, per round:
//   * every IsPodEvicted answer equals the ground truth at that moment (a pod whose eviction request FAILED is
//     not already evicted and stays a candidate; a pod evicted successfully is remembered);
//   * every Evict result equals the API outcome of that call; no second eviction request is sent for a pod
//     whose earlier request succeeded (still terminating);
//   * the order / twice / minimality / accounting oracles of the unit util-tasks, evaluated on the recorded call
//     sequence with every answer replaced by the ground truth ("released" = pods evicted at the API in this or
//     an earlier round).

import (
	"fmt"
	"testing"

	corev1 "k8s.io/api/core/v1"
	policyv1 "k8s.io/api/policy/v1"
	apierrors "k8s.io/apimachinery/pkg/api/errors"
	"k8s.io/apimachinery/pkg/runtime"
	"k8s.io/apimachinery/pkg/runtime/schema"
	clientsetfake "k8s.io/client-go/kubernetes/fake"
	clienttesting "k8s.io/client-go/testing"
	"k8s.io/client-go/tools/record"

	kit "github.com/koordinator-sh/koordinator/pkg/verifkit"
)

const (
	c11APIOK = iota
	c11API429
	c11APINotFound
	c11APIGeneric
)

var c11APIKindName = []string{"ok", "429", "not_found", "generic"}

type c11APIReq struct {
	round, pod, kind int
}

// c11RealExec passes every call through to the production executor and records call + answer.
type c11RealExec struct {
	real   EvictionExecutor
	rec    *c11Exec
	apiLen func() int
	// per recorded event: number of API requests made while the call ran (Evict only)
	apiCalls []int
}

func (e *c11RealExec) Evict(pod *corev1.Pod, node *corev1.Node, releaseReason string, message string) bool {
	before := e.apiLen()
	ok := e.real.Evict(pod, node, releaseReason, message)
	e.rec.events = append(e.rec.events, c11Event{evict: true, pod: pod, message: message, result: ok})
	e.apiCalls = append(e.apiCalls, e.apiLen()-before)
	return ok
}

func (e *c11RealExec) IsPodEvicted(pod *corev1.Pod) bool {
	res := e.real.IsPodEvicted(pod)
	e.rec.events = append(e.rec.events, c11Event{pod: pod, result: res})
	e.apiCalls = append(e.apiCalls, 0)
	return res
}

func TestVerifC11RealEvictor(t *testing.T) {
	kit.Run(t, kit.Config{Property: "C11", Unit: "util-real-evictor", Quick: 12000, Thorough: 200000,
		Rule: "scenario as in util-tasks (2-10 pods, 1-3 tasks) but the executor is the production DefaultEvictionExecutor over the real Evictor and a fake clientset; 2-3 rounds over the same pods/tasks/Evictor; every eviction request is answered by a per-(round,pod) script: success / 429 / NotFound / generic error with a per-case failure rate of 0, 25, 50 or 85%; ground truth = the reactor's record; distinct = (plugin, features, rounds, failure rate, api requests class, failed-then-reconsidered, evicted-earlier-seen); non-trivial = a pod whose request failed is looked at again later, or a pod evicted in an earlier round is met again"},
		func(c *kit.Case) {
			r := c.R
			n := r.Range(2, 10)
			sc := c11GenScenario(r, n, 3)
			sc.apiMode = true
			sc.pending = map[int]bool{}
			rounds := r.Range(2, 3)
			failPct := kit.Pick(r, []int{0, 25, 50, 85})
			outcome := make([][]int, rounds)
			for ro := range outcome {
				outcome[ro] = make([]int, n)
				for i := range outcome[ro] {
					if r.Pct(failPct) {
						outcome[ro][i] = 1 + r.Weighted(50, 20, 30)
					}
				}
			}
			byName := map[string]*c11Pod{}
			for _, p := range sc.pods {
				byName[p.pod.Namespace+"/"+p.pod.Name] = p
			}
			curRound := 0
			var apiLog []c11APIReq
			client := clientsetfake.NewSimpleClientset()
			client.PrependReactor("create", "pods", func(action clienttesting.Action) (bool, runtime.Object, error) {
				ca, ok := action.(clienttesting.CreateAction)
				if !ok || action.GetSubresource() != "eviction" {
					return false, nil, nil
				}
				ev, ok := ca.GetObject().(*policyv1.Eviction)
				if !ok {
					return true, nil, fmt.Errorf("c11: unexpected eviction object %T", ca.GetObject())
				}
				p := byName[action.GetNamespace()+"/"+ev.Name]
				if p == nil {
					return true, nil, apierrors.NewNotFound(schema.GroupResource{Resource: "pods"}, ev.Name)
				}
				kind := outcome[curRound][p.idx]
				apiLog = append(apiLog, c11APIReq{round: curRound, pod: p.idx, kind: kind})
				switch kind {
				case c11API429:
					return true, nil, apierrors.NewTooManyRequests("Cannot evict pod as it would violate the pod's disruption budget.", 0)
				case c11APINotFound:
					return true, nil, apierrors.NewNotFound(schema.GroupResource{Resource: "pods"}, ev.Name)
				case c11APIGeneric:
					return true, nil, fmt.Errorf("Post \"https://apiserver/eviction\": connection refused")
				}
				return true, ev, nil
			})
			// executor configuration: evict by API with policy/v1 (what FindSupportedEvictVersion yields on current
			// clusters); rarely an eviction version the Evictor does not support (every eviction then fails without a
			// request), or the kill-containers mode (no API request, nothing is remembered; the generated pods carry no
			// container status, so nothing is sent to a container runtime)
			version, killMode := policyv1.SchemeGroupVersion.Version, false
			switch r.Weighted(80, 6, 14) {
			case 1:
				version = "v1beta1"
			case 2:
				killMode = true
			}
			evictor := NewEvictor(client, &record.FakeRecorder{}, version)
			stop := make(chan struct{})
			defer close(stop)
			if err := evictor.Start(stop); err != nil {
				c.Harness("evictor start: %v", err)
			}
			real := InitializeEvictionExecutor(evictor, !killMode)
			sc.apiMode = !killMode
			if _, ok := real.(*DefaultEvictionExecutor); !ok {
				c.Harness("production executor is %T, expected *DefaultEvictionExecutor", real)
			}
			c11LogScenario(c, sc)
			c.Op("evictVersion=%s killMode=%v", version, killMode)
			c.Count("real_evictor_cases_version_"+version, 1)
			if killMode {
				c.Count("real_evictor_cases_kill_mode", 1)
			}
			c.Op("rounds=%d failPct=%d outcome(round x pod; 0 ok 1 429 2 notfound 3 generic)=%v", rounds, failPct, outcome)

			truth := map[int]bool{}      // eviction request succeeded at the API
			failedEver := map[int]bool{} // some eviction request failed and none succeeded so far
			reconsidered, evictedSeenAgain := 0, 0
			seenSigs := map[string]bool{}
			report := func(sig, format string, a ...any) {
				if !seenSigs[sig] {
					seenSigs[sig] = true
					c.Report(sig, format, a...)
				}
			}
			for ro := 0; ro < rounds; ro++ {
				curRound = ro
				sc.pending = map[int]bool{}
				for i := range truth {
					sc.pending[i] = true
				}
				w := &c11RealExec{real: real, rec: c11NewExec(sc, nil), apiLen: func() int { return len(apiLog) }}
				apiStart := len(apiLog)
				returned, newly := KillAndEvictPods(w, c11Node, c11BuildTasks(sc))
				// ground truth walk
				corrected := c11NewExec(sc, nil)
				apiPos := apiStart
				var trace []string
				for k, ev := range w.rec.events {
					p := w.rec.byUID[ev.pod.UID]
					if p == nil {
						c.Harness("executor called for unknown pod %s", ev.pod.Name)
					}
					if !ev.evict {
						want := truth[p.idx]
						trace = append(trace, fmt.Sprintf("IsPodEvicted(%s)=%v", p.name, ev.result))
						if ev.result && !want {
							if failedEver[p.idx] {
								report("C11/real-evictor/failed-eviction-reported-as-already-evicted", "round %d: IsPodEvicted(%s) is true although every eviction request for the pod failed at the API (the pod is still running and must stay a candidate)", ro, p.name)
							} else {
								report("C11/real-evictor/never-evicted-pod-reported-as-already-evicted", "round %d: IsPodEvicted(%s) is true although no eviction request for the pod ever succeeded", ro, p.name)
							}
						}
						if !ev.result && want {
							report("C11/real-evictor/evicted-pod-not-remembered", "round %d: IsPodEvicted(%s) is false although its eviction request succeeded at the API earlier (within the cache TTL)", ro, p.name)
						}
						if !ev.result && !want && failedEver[p.idx] {
							reconsidered++
						}
						if ev.result && want {
							evictedSeenAgain++
						}
						corrected.events = append(corrected.events, c11Event{pod: ev.pod, result: want})
						continue
					}
					nAPI := w.apiCalls[k]
					trace = append(trace, fmt.Sprintf("Evict(%s)=%v api=%d", p.name, ev.result, nAPI))
					want := false
					switch {
					case truth[p.idx]:
						want = true
						if nAPI > 0 {
							report("C11/twice/second-eviction-request-after-api-success", "round %d: a second eviction request was sent for %s although an earlier request succeeded and the pod is still terminating", ro, p.name)
						}
					case nAPI == 1:
						req := apiLog[apiPos]
						if req.pod != p.idx {
							c.Harness("api log out of step: request for pod %d during Evict(%s)", req.pod, p.name)
						}
						want = req.kind == c11APIOK
					case nAPI == 0 && killMode:
						// killing containers involves no API request: there is no independent record, the answer is taken
						want = ev.result
					case nAPI == 0:
						want = false
						if ev.result {
							report("C11/real-evictor/evict-reported-success-without-api-request", "round %d: Evict(%s) returned true without any eviction request although the pod was never evicted", ro, p.name)
						}
					default:
						report("C11/twice/several-eviction-requests-in-one-evict-call", "round %d: Evict(%s) sent %d eviction requests", ro, p.name, nAPI)
						for _, req := range apiLog[apiPos : apiPos+nAPI] {
							want = want || req.kind == c11APIOK
						}
					}
					apiPos += nAPI
					if ev.result != want && nAPI > 0 {
						report("C11/real-evictor/evict-result-disagrees-with-api", "round %d: Evict(%s) returned %v, the API outcome was evicted=%v", ro, p.name, ev.result, want)
					}
					if want && killMode {
						// containers killed; the pod object stays and is not "already evicted" for a later round
					} else if want {
						truth[p.idx] = true
						delete(failedEver, p.idx)
					} else {
						failedEver[p.idx] = true
					}
					corrected.events = append(corrected.events, c11Event{evict: true, pod: ev.pod, message: ev.message, result: want})
				}
				out := c11Check(sc, corrected, returned, newly)
				c.Op("round %d: calls=%v returned={%s}", ro, trace, c11ReturnedString(returned))
				c11CountOutcome(c, out)
				c.Count("real_evictor_rounds", 1)
				for _, f := range out.findings {
					if len(f.sig) > 12 && f.sig[:12] == "C11/harness/" {
						c.Harness("%s", f.msg)
					}
					report(f.sig, "round %d (answers replaced by the API ground truth): %s", ro, f.msg)
				}
			}
			nFail := 0
			for _, req := range apiLog {
				c.Count("api_requests_"+c11APIKindName[req.kind], 1)
				if req.kind != c11APIOK {
					nFail++
					c.Count("api_failures_by_kind_"+c11APIKindName[req.kind], 1)
				}
			}
			c.Count("api_failures_by_kind", nFail)
			c.Count("candidates_with_failed_eviction_reconsidered", reconsidered)
			c.Count("evicted_earlier_met_again_as_already_evicted", evictedSeenAgain)
			if reconsidered > 0 || evictedSeenAgain > 0 {
				c.NonTrivial()
			}
			feats := ""
			for _, t := range sc.tasks {
				feats += t.feature + ","
			}
			c.Seen(sc.plugin, feats, rounds, failPct, (len(apiLog)+2)/3, reconsidered > 0, evictedSeenAgain > 0)
			if c.K < 1 {
				c.Sample(map[string]any{"tasks": fmt.Sprint(sc.tasks), "rounds": rounds, "api_requests": len(apiLog)})
			}
		})
}
