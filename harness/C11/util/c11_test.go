//go:build verif

package util

// C11 monitors for the shared eviction loop (KillAndEvictPods) and the opt-out predicate
// (IsEvictionPolicyAllowed). See /verif/DESIGN.md section 4, C11.
//
// What is executed: the real KillAndEvictPods with task lists shaped like the ones the six koordlet
// strategies build (BEMemoryEvict / MemoryAllocatableEvict / MemoryEvict, BECPUEvict /
// CPUAllocatableEvict / CPUEvict), 1-3 simultaneous tasks with overlapping pod lists, and a recording
// EvictionExecutor whose Evict calls fail by script and whose IsPodEvicted answers by script.
//
// Oracle (over the RECORDED sequence of executor calls, replayed against a shadow that only knows the
// generator's truth table "what does removing pod p free of resource r"):
//   order        within a task the attempted pods appear in the order of the task's published list;
//   twice        no Evict for a pod after a successful Evict of it, none for a pod reported already evicted;
//   minimality   at every attempt the task's target minus everything released so far (successful
//                evictions + already-evicted pods the loop was told about) is positive in some resource,
//                and the attempted pod frees a positive amount of a resource that is still short;
//   accounting   returned ReleaseList == sum of the truth releases of successful + already-evicted pods.
//
// Causal rules of the generated inputs (what the real callers can produce):
//   * one pod = one namespace/name/UID; every task gets its own PodEvictInfo objects for the same pods;
//   * a task's list is filtered and sorted by the strategy's published comparator (harness's own
//     implementation), so a pod that frees nothing sits before useful pods only when its priority
//     key is lower (e.g. a lower-priority BE pod that has no usage sample yet);
//   * release functions have the shapes of the real ones: {memory: used}, {cpu: used},
//     {batch-cpu: request} for every pod, and for the allocatable strategies nil for pods whose
//     priority class is not among the over-committed ones, else {class resource: request};
//   * targets are positive (the used/satisfaction calculators only emit positive targets); the
//     allocatable calculators can emit a zero entry (node without the extended resource);
//   * after a successful Evict the executor reports the pod as evicted when evicting by API
//     (Evictor cache), and keeps reporting false when killing containers.

import (
	"encoding/json"
	"fmt"
	"sort"
	"strings"
	"testing"

	corev1 "k8s.io/api/core/v1"
	"k8s.io/apimachinery/pkg/api/resource"
	metav1 "k8s.io/apimachinery/pkg/apis/meta/v1"
	"k8s.io/apimachinery/pkg/types"
	"k8s.io/klog/v2"

	apiext "github.com/koordinator-sh/koordinator/apis/extension"
	kit "github.com/koordinator-sh/koordinator/pkg/verifkit"
)

func init() {
	klog.SetOutput(c11Discard{})
	klog.LogToStderr(false)
}

type c11Discard struct{}

func (c11Discard) Write(p []byte) (int, error) { return len(p), nil }

// ---------------------------------------------------------------------------------------------
// model

type c11Pod struct {
	ns, objName string // namespace and object name (a name may repeat in another namespace; p.name stays unique)
	idx          int
	name         string
	pod          *corev1.Pod
	class        apiext.PriorityClass
	be           bool
	prio         int32
	evPrio       int32
	labelPrio    int64
	evictEnabled bool
	hasMetric    bool
	usedCPU      int64 // milli
	usedMem      int64 // bytes
	reqCPU       int64 // milli, in the class's cpu resource
	reqMem       int64 // bytes, in the class's memory resource
	optOut       map[string]bool
}

// c11Truth: what removing the pod frees of resource r in the accounting of release target type t.
func (p *c11Pod) truth(t ReleaseTargetType, r corev1.ResourceName) int64 {
	switch t {
	case ReleaseTargetTypeResourceUsed:
		switch r {
		case corev1.ResourceCPU:
			return p.usedCPU
		case corev1.ResourceMemory:
			return p.usedMem
		}
	case ReleaseTargetTypeResourceRequest:
		switch r {
		case apiext.BatchCPU:
			if p.class == apiext.PriorityBatch {
				return p.reqCPU
			}
		case apiext.MidCPU:
			if p.class == apiext.PriorityMid {
				return p.reqCPU
			}
		case apiext.BatchMemory:
			if p.class == apiext.PriorityBatch {
				return p.reqMem
			}
		case apiext.MidMemory:
			if p.class == apiext.PriorityMid {
				return p.reqMem
			}
		}
	}
	return 0
}

func (p *c11Pod) String() string {
	return fmt.Sprintf("%s{%s be=%v prio=%d ev=%d lp=%d en=%v metric=%v usedCPU=%d usedMem=%d reqCPU=%d reqMem=%d}",
		p.name, p.class, p.be, p.prio, p.evPrio, p.labelPrio, p.evictEnabled, p.hasMetric, p.usedCPU, p.usedMem, p.reqCPU, p.reqMem)
}

type c11Task struct {
	idx     int
	feature string
	typ     ReleaseTargetType
	resList []corev1.ResourceName // sorted target resource names
	target  map[corev1.ResourceName]int64
	list    []*c11Pod
	reason  string
}

func (t *c11Task) String() string {
	names := make([]string, len(t.list))
	for i, p := range t.list {
		names[i] = p.name
	}
	tg := make([]string, 0, len(t.resList))
	for _, r := range t.resList {
		tg = append(tg, fmt.Sprintf("%s=%d", r, t.target[r]))
	}
	return fmt.Sprintf("task%d{%s type=%s target={%s} list=%v}", t.idx, t.feature, t.typ, strings.Join(tg, ","), names)
}

type c11Scenario struct {
	extreme int // 0 ordinary, 1/2/3 boundary-biased eviction-priority / spec.priority / priority label
	plugin  string
	pods    []*c11Pod
	tasks   []*c11Task
	pending map[int]bool // pod idx -> executor reports "already evicted" from the start
	apiMode bool
}

func c11QtyInt(r corev1.ResourceName, q resource.Quantity) int64 {
	if r == corev1.ResourceCPU {
		return q.MilliValue()
	}
	return q.Value()
}

func c11IntQty(r corev1.ResourceName, v int64) resource.Quantity {
	switch r {
	case corev1.ResourceCPU:
		return *resource.NewMilliQuantity(v, resource.DecimalSI)
	case apiext.BatchCPU, apiext.MidCPU:
		return *resource.NewQuantity(v, resource.DecimalSI)
	}
	return *resource.NewQuantity(v, resource.BinarySI)
}

// ---------------------------------------------------------------------------------------------
// recording executor

type c11Event struct {
	evict   bool // false: IsPodEvicted
	pod     *corev1.Pod
	message string
	result  bool
}

type c11Exec struct {
	sc      *c11Scenario
	byUID   map[types.UID]*c11Pod
	script  func(call int, p *c11Pod) bool // true = the eviction call succeeds
	calls   int
	evicted map[int]bool // successful Evict in this invocation
	events  []c11Event
	bits    []bool // outcome of every Evict call in order (fault-tree enumeration)
}

func c11NewExec(sc *c11Scenario, script func(call int, p *c11Pod) bool) *c11Exec {
	e := &c11Exec{sc: sc, script: script, byUID: map[types.UID]*c11Pod{}, evicted: map[int]bool{}}
	for _, p := range sc.pods {
		e.byUID[p.pod.UID] = p
	}
	return e
}

func (e *c11Exec) Evict(pod *corev1.Pod, node *corev1.Node, releaseReason string, message string) bool {
	p := e.byUID[pod.UID]
	// the real Evictor answers true without calling the API for a pod it already evicted
	ok := true
	if p == nil || !e.sc.pending[p.idx] {
		ok = e.script(e.calls, p)
	}
	e.calls++
	e.bits = append(e.bits, ok)
	if ok && p != nil {
		e.evicted[p.idx] = true
	}
	e.events = append(e.events, c11Event{evict: true, pod: pod, message: message, result: ok})
	return ok
}

func (e *c11Exec) IsPodEvicted(pod *corev1.Pod) bool {
	p := e.byUID[pod.UID]
	res := false
	if p != nil {
		res = e.sc.pending[p.idx] || (e.sc.apiMode && e.evicted[p.idx])
	}
	e.events = append(e.events, c11Event{pod: pod, result: res})
	return res
}

// ---------------------------------------------------------------------------------------------
// building the real input from the scenario

func c11BuildPodObject(p *c11Pod) *corev1.Pod {
	labels := map[string]string{}
	if p.be {
		labels[apiext.LabelPodQoS] = string(apiext.QoSBE)
	} else if p.class == apiext.PriorityProd || p.class == apiext.PriorityMid {
		labels[apiext.LabelPodQoS] = string(apiext.QoSLS)
	}
	if p.evictEnabled {
		labels[apiext.LabelPodEvictEnabled] = "true"
	}
	if p.labelPrio != int64(p.prio) {
		labels[apiext.LabelPodPriority] = fmt.Sprint(p.labelPrio)
	}
	ann := map[string]string{}
	if p.evPrio != 0 {
		ann[apiext.AnnotationPodEvictionPriority] = fmt.Sprint(p.evPrio)
	}
	cpuRes, memRes := corev1.ResourceCPU, corev1.ResourceMemory
	switch p.class {
	case apiext.PriorityBatch:
		cpuRes, memRes = apiext.BatchCPU, apiext.BatchMemory
	case apiext.PriorityMid:
		cpuRes, memRes = apiext.MidCPU, apiext.MidMemory
	}
	req := corev1.ResourceList{}
	if p.reqCPU > 0 {
		req[cpuRes] = c11IntQty(cpuRes, p.reqCPU)
	}
	if p.reqMem > 0 {
		req[memRes] = c11IntQty(memRes, p.reqMem)
	}
	prio := p.prio
	return &corev1.Pod{
		ObjectMeta: metav1.ObjectMeta{Name: p.objName, Namespace: p.ns, UID: types.UID("uid-" + p.name), Labels: labels, Annotations: ann},
		Spec: corev1.PodSpec{
			Priority:   &prio,
			Containers: []corev1.Container{{Name: "main", Resources: corev1.ResourceRequirements{Requests: req}}},
		},
		Status: corev1.PodStatus{Phase: corev1.PodRunning},
	}
}

func c11ReleaseFunc(sc *c11Scenario, t *c11Task) func(*PodEvictInfo) corev1.ResourceList {
	byUID := map[types.UID]*c11Pod{}
	for _, p := range sc.pods {
		byUID[p.pod.UID] = p
	}
	switch t.feature {
	case "BEMemoryEvict", "MemoryEvict":
		return func(info *PodEvictInfo) corev1.ResourceList {
			return corev1.ResourceList{corev1.ResourceMemory: *resource.NewQuantity(info.MemoryUsed, resource.BinarySI)}
		}
	case "CPUEvict":
		return func(info *PodEvictInfo) corev1.ResourceList {
			return corev1.ResourceList{corev1.ResourceCPU: *resource.NewMilliQuantity(info.MilliCPUUsed, resource.DecimalSI)}
		}
	case "BECPUEvict":
		return func(info *PodEvictInfo) corev1.ResourceList {
			p := byUID[info.Pod.UID]
			return corev1.ResourceList{apiext.BatchCPU: *resource.NewQuantity(p.truth(ReleaseTargetTypeResourceRequest, apiext.BatchCPU), resource.DecimalSI)}
		}
	}
	// allocatable strategies: nil for pods whose class is not over-committed
	classes := map[apiext.PriorityClass]corev1.ResourceName{}
	for _, r := range t.resList {
		classes[apiext.ReverseResourceNameMap[r]] = r
	}
	return func(info *PodEvictInfo) corev1.ResourceList {
		p := byUID[info.Pod.UID]
		r, ok := classes[p.class]
		if !ok {
			return nil
		}
		return corev1.ResourceList{r: c11IntQty(r, p.truth(ReleaseTargetTypeResourceRequest, r))}
	}
}

func c11BuildTasks(sc *c11Scenario) []*EvictTaskInfo {
	var out []*EvictTaskInfo
	for _, t := range sc.tasks {
		ti := &EvictTaskInfo{Reason: t.reason, ReleaseTarget: t.typ, ToReleaseResource: corev1.ResourceList{}, GetPodResourceFunc: c11ReleaseFunc(sc, t)}
		for _, r := range t.resList {
			ti.ToReleaseResource[r] = c11IntQty(r, t.target[r])
		}
		for _, p := range t.list {
			// as with the real pods informer, every task holds its own deep copy of the pod object
			ti.SortedEvictPods = append(ti.SortedEvictPods, &PodEvictInfo{Pod: p.pod.DeepCopy(), MilliCPUUsed: p.usedCPU, MemoryUsed: p.usedMem,
				MilliCPURequest: p.reqCPU, MemoryRequest: p.reqMem, Priority: p.prio, LabelPriority: p.labelPrio, EvictionPriority: p.evPrio})
		}
		out = append(out, ti)
	}
	return out
}

// ---------------------------------------------------------------------------------------------
// oracle

type c11Finding struct{ sig, msg string }

type c11Outcome struct {
	attempts, successes, failures, pendingSeen int
	metTasks, unmetTasks                        int
	stoppedEarly                                int
	findings                                    []c11Finding
	trace                                       []string
}

// c11Check replays the recorded executor calls against the shadow and returns every violated clause.
func c11Check(sc *c11Scenario, ex *c11Exec, returned ReleaseList, newly bool) *c11Outcome {
	out := &c11Outcome{}
	add := func(sig, format string, a ...any) {
		for _, f := range out.findings {
			if f.sig == sig {
				return
			}
		}
		out.findings = append(out.findings, c11Finding{sig, fmt.Sprintf(format, a...)})
	}
	taskByReason := map[string]*c11Task{}
	for _, t := range sc.tasks {
		taskByReason[t.reason] = t
	}
	succ := map[int]bool{}  // successfully evicted in this invocation
	known := map[int]bool{} // already-evicted pods the loop was told about
	lastPos := map[int]int{}
	attempted := map[[2]int]bool{}
	for _, t := range sc.tasks {
		lastPos[t.idx] = -1
	}
	remaining := func(t *c11Task, extra map[int]bool) map[corev1.ResourceName]int64 {
		rem := map[corev1.ResourceName]int64{}
		for _, r := range t.resList {
			v := t.target[r]
			for _, p := range sc.pods {
				if succ[p.idx] || known[p.idx] || extra[p.idx] {
					v -= p.truth(t.typ, r)
				}
			}
			if v > 0 {
				rem[r] = v
			}
		}
		return rem
	}
	for _, ev := range ex.events {
		p := ex.byUID[ev.pod.UID]
		if p == nil {
			add("C11/order/evicted-pod-not-in-any-task", "executor called for unknown pod %s", ev.pod.Name)
			continue
		}
		if !ev.evict {
			if ev.result {
				if !known[p.idx] {
					out.pendingSeen++
				}
				known[p.idx] = true
			}
			continue
		}
		out.attempts++
		i := strings.Index(ev.message, ", kill pod: ")
		var t *c11Task
		if i >= 0 {
			t = taskByReason[ev.message[:i]]
		}
		if t == nil {
			add("C11/harness/unattributable-evict-call", "cannot attribute Evict(%s) with message %q to a task", p.name, ev.message)
			continue
		}
		pos := -1
		for j, q := range t.list {
			if q == p {
				pos = j
			}
		}
		out.trace = append(out.trace, fmt.Sprintf("Evict(task%d,%s)=%v", t.idx, p.name, ev.result))
		if pos < 0 {
			add("C11/order/evicted-pod-not-in-task-list", "task %d (%s) attempted %s which is not in its list", t.idx, t.feature, p.name)
		} else {
			if pos <= lastPos[t.idx] {
				add("C11/order/out-of-published-order", "task %d (%s) attempted %s (list position %d) after position %d", t.idx, t.feature, p.name, pos, lastPos[t.idx])
			}
			lastPos[t.idx] = pos
		}
		attempted[[2]int{t.idx, p.idx}] = true
		if succ[p.idx] {
			add("C11/twice/evicted-again-after-success", "task %d (%s) called Evict(%s) although an earlier Evict of the pod succeeded in this round", t.idx, t.feature, p.name)
		}
		if sc.pending[p.idx] {
			add("C11/twice/evict-called-for-already-evicted-pod", "task %d (%s) called Evict(%s) although the executor reports the pod as already evicted", t.idx, t.feature, p.name)
		}
		rem := remaining(t, nil)
		if len(rem) == 0 {
			add("C11/minimality/evicted-after-target-met", "task %d (%s) attempted %s although target %v is already covered by the %d successful + %d already-evicted victims",
				t.idx, t.feature, p.name, t.target, len(succ), len(known))
		} else {
			useful := false
			for r := range rem {
				if p.truth(t.typ, r) > 0 {
					useful = true
				}
			}
			if !useful {
				add("C11/minimality/evicted-pod-releases-nothing-short", "task %d (%s, target type %s) attempted %s, still short %v, but the pod frees none of it (%s)",
					t.idx, t.feature, t.typ, p.name, rem, p)
			}
			// already-evicted pods of this task's list that the loop has not looked at yet
			extra := map[int]bool{}
			for _, q := range t.list {
				if sc.pending[q.idx] && !known[q.idx] {
					extra[q.idx] = true
				}
			}
			if len(extra) > 0 && len(remaining(t, extra)) == 0 {
				add("C11/minimality/evicted-while-already-evicted-victims-cover-target", "task %d (%s) attempted %s although target %v is covered once the already-evicted, still terminating pods later in its list are counted",
					t.idx, t.feature, p.name, t.target)
			}
		}
		if ev.result {
			succ[p.idx] = true
			out.successes++
		} else {
			out.failures++
		}
	}
	// returned ReleaseList == sum over successful + already-evicted pods, for every targeted resource
	active := map[ReleaseTargetType]map[corev1.ResourceName]bool{}
	for _, t := range sc.tasks {
		for _, r := range t.resList {
			if t.target[r] > 0 {
				if active[t.typ] == nil {
					active[t.typ] = map[corev1.ResourceName]bool{}
				}
				active[t.typ][r] = true
			}
		}
	}
	for _, t := range sc.tasks {
		for _, r := range t.resList {
			if !active[t.typ][r] {
				continue
			}
			var want int64
			for _, p := range sc.pods {
				if succ[p.idx] || known[p.idx] {
					want += p.truth(t.typ, r)
				}
			}
			var got int64
			if rl, ok := returned[t.typ]; ok {
				if q, ok := rl[r]; ok {
					got = c11QtyInt(r, q)
				}
			}
			if got != want {
				add("C11/accounting/returned-release-mismatch", "returned ReleaseList[%s][%s]=%d, the %d successful + %d already-evicted victims free %d", t.typ, r, got, len(succ), len(known), want)
			}
		}
		rem := remaining(t, nil)
		if len(rem) == 0 {
			out.metTasks++
		} else {
			out.unmetTasks++
			// "eviction stops as soon as the released resources cover the target": the loop returned with the
			// target still short although a candidate of the task's list that frees something of what is short was
			// never attempted (not a failed call, not an already evicted pod)
			for _, q := range t.list {
				if succ[q.idx] || known[q.idx] || sc.pending[q.idx] || attempted[[2]int{t.idx, q.idx}] {
					continue
				}
				for r := range rem {
					if q.truth(t.typ, r) > 0 {
						out.stoppedEarly++
						add("C11/sufficiency/stopped-before-target-covered", "task %d (%s) ended with target %v still short by %v although candidate %s of its list, which frees part of it, was never attempted", t.idx, t.feature, t.target, rem, q.name)
						break
					}
				}
			}
		}
	}
	_ = newly
	return out
}

// ---------------------------------------------------------------------------------------------
// generation

var c11MemFeatures = []string{"BEMemoryEvict", "MemoryAllocatableEvict", "MemoryEvict"}
var c11CPUFeatures = []string{"BECPUEvict", "CPUAllocatableEvict", "CPUEvict"}

// Legal extremes of the ordering keys (eviction-priority annotation and priority label are parsed as int32;
// spec.priority: any negative int32, user classes up to 1000000000, system-node-critical 2000001000).
var c11ExtremeI32 = []int32{-1 << 31, -1<<31 + 1, -1, 0, 1, 1<<31 - 2, 1<<31 - 1}
var c11ExtremePrio = []int32{-1 << 31, -1 << 31, -1<<31 + 1, -1, 1, 1, 1000000000, 2000001000}

// c11GenPods: mode 0 ordinary; 1/2/3 = boundary-biased eviction-priority / spec.priority / priority label for the
// harness-side sorted candidate lists (KillAndEvictPods itself does not sort; this only varies the list orders
// and the keys carried by the PodEvictInfo objects).
func c11GenPods(r *kit.Rand, n int, mode int) []*c11Pod {
	pods := make([]*c11Pod, n)
	sharedPrio := kit.Pick(r, []int32{5500, 100, -1 << 31, -1, 1})
	for i := range pods {
		p := &c11Pod{idx: i, name: fmt.Sprintf("p%d", i), optOut: map[string]bool{}, ns: "default"}
		p.objName = p.name
		if r.Pct(20) {
			p.ns = "team-a"
			if i > 0 && pods[i-1].ns == "default" && r.Pct(40) {
				p.objName = pods[i-1].objName
			}
		}
		var lo, hi int32
		switch r.Weighted(45, 20, 15, 20) {
		case 0:
			p.class, lo, hi, p.be = apiext.PriorityBatch, apiext.PriorityBatchValueMin, apiext.PriorityBatchValueMax, true
		case 1:
			p.class, lo, hi, p.be = apiext.PriorityMid, apiext.PriorityMidValueMin, apiext.PriorityMidValueMax, r.Pct(15)
		case 2:
			p.class, lo, hi, p.be = apiext.PriorityFree, apiext.PriorityFreeValueMin, apiext.PriorityFreeValueMax, r.Pct(70)
		default:
			p.class, lo, hi, p.be = apiext.PriorityProd, apiext.PriorityProdValueMin, apiext.PriorityProdValueMax, false
		}
		p.prio = kit.Pick(r, []int32{lo, lo, lo + 1, lo + 500, hi - 1, hi, lo + int32(r.Intn(int(hi-lo)+1))})
		p.evictEnabled = r.Pct(75)
		if r.Pct(30) {
			p.evPrio = kit.Pick(r, []int32{-100, -1, 1, 5, 100})
		}
		switch mode {
		case 1:
			if r.Pct(70) {
				p.evPrio = kit.Pick(r, c11ExtremeI32)
			}
		case 2:
			p.evPrio = 0
			if r.Pct(65) {
				p.prio = kit.Pick(r, c11ExtremePrio)
			}
		case 3:
			p.evPrio, p.prio = 0, sharedPrio
		}
		p.labelPrio = int64(p.prio)
		if mode == 3 && r.Pct(70) {
			// a label value cannot start with '-': only non-negative extremes are legal label values
			p.labelPrio = int64(kit.Pick(r, []int32{0, 1, 1<<31 - 2, 1<<31 - 1}))
		} else if r.Pct(20) {
			p.labelPrio = int64(r.Intn(10000))
		}
		p.hasMetric = r.Pct(85)
		if p.hasMetric {
			if !r.Pct(25) {
				p.usedCPU = kit.Pick(r, []int64{1, 5, 100, 250, 999, 1000, 1001, 4000, int64(r.Range(1, 8000))})
			}
			if !r.Pct(10) {
				p.usedMem = kit.Pick(r, []int64{1, 4096, 1 << 20, 100<<20 - 1, 100 << 20, 1 << 30, 3 << 30, 1<<40 + 1, r.Int63n(8<<30) + 1})
			}
		}
		if !r.Pct(15) {
			p.reqCPU = kit.Pick(r, []int64{1, 500, 1000, 1001, 2000, 16000, int64(r.Range(1, 8000))})
		}
		if !r.Pct(15) {
			p.reqMem = kit.Pick(r, []int64{1, 1 << 20, 1 << 30, 2<<30 - 1, 64 << 30, r.Int63n(8<<30) + 1})
		}
		for _, f := range append(append([]string{}, c11MemFeatures...), c11CPUFeatures...) {
			if r.Pct(8) {
				p.optOut[f] = true
			}
		}
		p.pod = c11BuildPodObject(p)
		pods[i] = p
	}
	return pods
}

// c11SortPublished sorts a candidate list by the strategy's published key (harness's own comparator).
func c11SortPublished(feature string, list []*c11Pod) {
	ratio := func(p *c11Pod) float64 {
		if p.class != apiext.PriorityBatch || p.reqCPU <= 0 {
			return 0
		}
		return float64(p.usedCPU) / float64(p.reqCPU)
	}
	sort.SliceStable(list, func(i, j int) bool {
		a, b := list[i], list[j]
		switch feature {
		case "BEMemoryEvict":
			if a.prio != b.prio {
				return a.prio < b.prio
			}
			return a.usedMem > b.usedMem
		case "BECPUEvict":
			if a.prio != b.prio {
				return a.prio < b.prio
			}
			return ratio(a) > ratio(b)
		}
		if a.evPrio != b.evPrio {
			return a.evPrio < b.evPrio
		}
		if a.prio != b.prio {
			return a.prio < b.prio
		}
		if a.labelPrio != b.labelPrio {
			return a.labelPrio < b.labelPrio
		}
		switch feature {
		case "MemoryEvict":
			return a.usedMem > b.usedMem
		case "CPUEvict":
			return a.usedCPU > b.usedCPU
		case "MemoryAllocatableEvict":
			return a.reqMem > b.reqMem
		default:
			return a.reqCPU > b.reqCPU
		}
	})
}

func c11PickTarget(r *kit.Rand, rels []int64, allowZero bool) int64 {
	var total, minPos int64
	for _, v := range rels {
		total += v
		if v > 0 && (minPos == 0 || v < minPos) {
			minPos = v
		}
	}
	if allowZero && r.Pct(6) {
		return 0
	}
	var v int64
	switch r.Weighted(8, 12, 15, 10, 15, 10, 10, 20) {
	case 0:
		v = 1
	case 1:
		v = minPos
	case 2:
		v = total / 2
	case 3:
		v = total - 1
	case 4:
		v = total
	case 5:
		v = total + 1
	case 6:
		v = 2*total + 7
	default:
		v = r.Int63n(total+1) + 1
	}
	if v < 1 {
		v = 1
	}
	return v
}

func c11GenScenario(r *kit.Rand, n int, maxTasks int) *c11Scenario {
	sc := &c11Scenario{pending: map[int]bool{}, apiMode: r.Bool()}
	if r.Pct(15) {
		sc.extreme = 1 + r.Intn(3)
	}
	sc.pods = c11GenPods(r, n, sc.extreme)
	features := c11MemFeatures
	sc.plugin = "mem"
	if r.Bool() {
		features, sc.plugin = c11CPUFeatures, "cpu"
	}
	var chosen []string
	for len(chosen) == 0 {
		chosen = chosen[:0]
		want := 1 + r.Weighted(35, 40, 25)
		if want > maxTasks {
			want = maxTasks
		}
		perm := r.Perm(3)[:want]
		sort.Ints(perm)
		for _, i := range perm {
			chosen = append(chosen, features[i])
		}
	}
	thrA := kit.Pick(r, []int32{4999, 5000, 5500, 5999, 7500, 7999})
	thrU := kit.Pick(r, []int32{3999, 5500, 5999, 7999, 9999})
	if sc.extreme > 0 && r.Pct(50) {
		thrU = 1<<31 - 1 // keep the pods with extreme spec.priority in the used-strategy lists
	}
	for i, f := range chosen {
		t := &c11Task{idx: i, feature: f, reason: fmt.Sprintf("c11 task %d trigger by koordlet feature %s", i, f), target: map[corev1.ResourceName]int64{}}
		for _, p := range sc.pods {
			if p.optOut[f] {
				continue
			}
			switch f {
			case "BEMemoryEvict", "BECPUEvict":
				if p.be {
					t.list = append(t.list, p)
				}
			case "MemoryAllocatableEvict", "CPUAllocatableEvict":
				if p.prio <= thrA && p.evictEnabled && p.hasMetric {
					t.list = append(t.list, p)
				}
			default:
				if p.prio <= thrU && p.evictEnabled && p.hasMetric {
					t.list = append(t.list, p)
				}
			}
		}
		c11SortPublished(f, t.list)
		switch f {
		case "BEMemoryEvict", "MemoryEvict":
			t.typ, t.resList = ReleaseTargetTypeResourceUsed, []corev1.ResourceName{corev1.ResourceMemory}
		case "CPUEvict":
			t.typ, t.resList = ReleaseTargetTypeResourceUsed, []corev1.ResourceName{corev1.ResourceCPU}
		case "BECPUEvict":
			t.typ, t.resList = ReleaseTargetTypeResourceRequest, []corev1.ResourceName{apiext.BatchCPU}
		case "MemoryAllocatableEvict":
			t.typ = ReleaseTargetTypeResourceRequest
			t.resList = [][]corev1.ResourceName{{apiext.BatchMemory}, {apiext.MidMemory}, {apiext.BatchMemory, apiext.MidMemory}}[r.Weighted(50, 15, 35)]
		case "CPUAllocatableEvict":
			t.typ = ReleaseTargetTypeResourceRequest
			t.resList = [][]corev1.ResourceName{{apiext.BatchCPU}, {apiext.MidCPU}, {apiext.BatchCPU, apiext.MidCPU}}[r.Weighted(50, 15, 35)]
		}
		allowZero := strings.Contains(f, "Allocatable")
		for _, res := range t.resList {
			var rels []int64
			for _, p := range t.list {
				rels = append(rels, p.truth(t.typ, res))
			}
			t.target[res] = c11PickTarget(r, rels, allowZero)
		}
		sc.tasks = append(sc.tasks, t)
	}
	pq := kit.Pick(r, []int{0, 0, 0, 0, 15, 15, 15, 40, 40, 100})
	for _, p := range sc.pods {
		if r.Pct(pq) {
			sc.pending[p.idx] = true
		}
	}
	return sc
}

func c11LogScenario(c *kit.Case, sc *c11Scenario) {
	c.Op("plugin=%s apiMode=%v boundaryBiasedKey=%d", sc.plugin, sc.apiMode, sc.extreme)
	for _, p := range sc.pods {
		c.Op("pod %s pending=%v", p, sc.pending[p.idx])
	}
	for _, t := range sc.tasks {
		c.Op("%s", t)
	}
}

func c11ReturnedString(rl ReleaseList) string {
	var parts []string
	for t, l := range rl {
		for r, q := range l {
			parts = append(parts, fmt.Sprintf("%s/%s=%d", t, r, c11QtyInt(r, q)))
		}
	}
	sort.Strings(parts)
	return strings.Join(parts, " ")
}

var c11Node = &corev1.Node{ObjectMeta: metav1.ObjectMeta{Name: "c11-node"}}

// c11Run executes one invocation of the real loop and evaluates the oracle.
func c11Run(sc *c11Scenario, script func(call int, p *c11Pod) bool) (*c11Exec, *c11Outcome, ReleaseList) {
	ex := c11NewExec(sc, script)
	returned, newly := KillAndEvictPods(ex, c11Node, c11BuildTasks(sc))
	return ex, c11Check(sc, ex, returned, newly), returned
}

func c11Report(c *kit.Case, out *c11Outcome, returned ReleaseList, scriptDesc string) {
	if len(out.findings) == 0 {
		return
	}
	c.Op("script=%s calls=%v returned={%s}", scriptDesc, out.trace, c11ReturnedString(returned))
	for _, f := range out.findings {
		if strings.HasPrefix(f.sig, "C11/harness/") {
			c.Harness("%s", f.msg)
		}
		c.Report(f.sig, "%s", f.msg)
	}
}

func c11CountOutcome(c *kit.Case, out *c11Outcome) {
	c.Count("evict_attempts", out.attempts)
	c.Count("evict_success", out.successes)
	c.Count("evict_failed", out.failures)
	c.Count("already_evicted_counted", out.pendingSeen)
	c.Count("tasks_target_met", out.metTasks)
	c.Count("tasks_target_unmet", out.unmetTasks)
	c.Count("loop_untried_useful_candidates_when_stopped_short", out.stoppedEarly)
	c.Count("oracle_attempt_checks", out.attempts)
}

// ---------------------------------------------------------------------------------------------
// (a) sampled task lists, scripted faults

func TestVerifC11Tasks(t *testing.T) {
	kit.Run(t, kit.Config{Property: "C11", Unit: "util-tasks", Quick: 30000, Thorough: 2400000,
		Rule: "2-15 pods (class, QoS, priority at class boundaries, eviction-priority, sub-priority label, zero usage / no sample / zero request), 1-3 tasks of one plugin in its published feature order with the strategies' filters, comparators, release-function shapes and targets from 1 to more than everything; executor script none / all fail / first only / every k-th / random p%, 0-100% of pods already evicted, evict-by-API or kill mode; distinct = (plugin, features, n class, fault script kind, already-evicted class, attempts class, met/unmet); non-trivial = at least one attempt and (a failure, an already-evicted pod counted, or a task whose target was met)"},
		func(c *kit.Case) {
			r := c.R
			n := []int{r.Range(2, 15), r.Range(16, 40)}[r.Weighted(94, 6)]
			sc := c11GenScenario(r, n, 3)
			kind := r.Weighted(25, 10, 15, 20, 30)
			k, off, pct := r.Range(2, 4), r.Intn(4), kit.Pick(r, []int{10, 30, 50, 80})
			fr := r.Fork()
			var desc string
			var script func(call int, p *c11Pod) bool
			switch kind {
			case 0:
				desc, script = "none", func(int, *c11Pod) bool { return true }
			case 1:
				desc, script = "all-fail", func(int, *c11Pod) bool { return false }
			case 2:
				desc, script = "first-only", func(call int, _ *c11Pod) bool { return call != 0 }
			case 3:
				desc, script = fmt.Sprintf("every-%d-th(+%d)", k, off), func(call int, _ *c11Pod) bool { return (call+off)%k != 0 }
			default:
				desc, script = fmt.Sprintf("random-%d%%", pct), func(int, *c11Pod) bool { return !fr.Pct(pct) }
			}
			c11LogScenario(c, sc)
			_, out, returned := c11Run(sc, script)
			c.Op("script=%s calls=%v returned={%s}", desc, out.trace, c11ReturnedString(returned))
			c11CountOutcome(c, out)
			c.Count("fault_script_"+[]string{"none", "all", "first_only", "every_kth", "random"}[kind], 1)
			feats := ""
			for _, t := range sc.tasks {
				feats += t.feature + ","
				c.Count("task_"+t.feature, 1)
			}
			c.Count("tasks_total", len(sc.tasks))
			if sc.extreme > 0 {
				c.Count("util_cases_boundary_biased_keys", 1)
			}
			c.Count(fmt.Sprintf("cases_with_%d_tasks", len(sc.tasks)), 1)
			if out.attempts > 0 && (out.failures > 0 || out.pendingSeen > 0 || out.metTasks > 0) {
				c.NonTrivial()
			}
			pc := len(sc.pending)
			c.Seen(sc.plugin, feats, n/4, kind, (pc+2)/3, (out.attempts+1)/2, out.metTasks, out.unmetTasks, out.failures > 0)
			if c.K < 2 {
				c.Sample(map[string]any{"tasks": fmt.Sprint(sc.tasks), "script": desc, "calls": out.trace, "returned": c11ReturnedString(returned)})
			}
			c11Report(c, out, returned, desc)
		})
}

// ---------------------------------------------------------------------------------------------
// (b) complete fault tree per scenario with <= 6 pods

func TestVerifC11FaultTree(t *testing.T) {
	kit.Run(t, kit.Config{Property: "C11", Unit: "util-fault-tree", Quick: 20000, Thorough: 1200000,
		Rule: "scenario generated as in util-tasks but with 1-6 pods and pods x tasks <= 12; for that scenario EVERY fail/succeed script of the individual Evict calls is executed (the binary fault tree over the calls actually made is enumerated completely by backtracking; one inner evaluation per leaf); scenarios themselves are sampled; distinct = (plugin, features, n, leaves class, max attempts); non-trivial = tree with at least 4 leaves"},
		func(c *kit.Case) {
			r := c.R
			n := kit.Pick(r, []int{1, 2, 3, 4, 4, 5, 5, 6, 6, 6})
			maxTasks := 3
			if n > 4 {
				maxTasks = 2
			}
			sc := c11GenScenario(r, n, maxTasks)
			c11LogScenario(c, sc)
			var prefix []bool
			leaves, maxAttempts := 0, 0
			for {
				pf := prefix
				ex, out, returned := c11Run(sc, func(call int, _ *c11Pod) bool {
					if call < len(pf) {
						return pf[call]
					}
					return true
				})
				leaves++
				c11CountOutcome(c, out)
				if out.attempts > maxAttempts {
					maxAttempts = out.attempts
				}
				if len(out.findings) > 0 {
					c11Report(c, out, returned, fmt.Sprint(ex.bits))
				}
				// next leaf: flip the last call that succeeded by default or by prefix and was not yet flipped
				bits := ex.bits
				i := len(bits) - 1
				// calls answered for already-evicted pods are not scriptable (always true) - they are never
				// reached on the unchanged tree; skip them when backtracking
				for i >= 0 && (!bits[i] || c11ForcedCall(sc, ex, i)) {
					i--
				}
				if i < 0 {
					break
				}
				prefix = append(append([]bool{}, bits[:i]...), false)
				if leaves > 1<<13 {
					c.Harness("fault tree larger than expected (%d leaves)", leaves)
				}
			}
			c.Evals(leaves - 1)
			c.Count("fault_tree_leaves", leaves)
			c.Count("fault_trees", 1)
			if leaves >= 4 {
				c.NonTrivial()
			}
			feats := ""
			for _, t := range sc.tasks {
				feats += t.feature + ","
			}
			lc := 0
			for l := leaves; l > 1; l >>= 1 {
				lc++
			}
			c.Seen(sc.plugin, feats, n, lc, maxAttempts)
			if c.K < 1 {
				c.Sample(map[string]any{"tasks": fmt.Sprint(sc.tasks), "leaves": leaves})
			}
		})
}

// c11ForcedCall: the i-th Evict call was for a pod the executor reports as already evicted.
func c11ForcedCall(sc *c11Scenario, ex *c11Exec, i int) bool {
	k := 0
	for _, ev := range ex.events {
		if !ev.evict {
			continue
		}
		if k == i {
			p := ex.byUID[ev.pod.UID]
			return p != nil && sc.pending[p.idx]
		}
		k++
	}
	return false
}

// ---------------------------------------------------------------------------------------------
// (c) exhaustive small scope: one used-memory task

const (
	c11ExMaxPods = 5
)

var c11ExTargets = []int64{1, 2, 3, 4, 7}

func c11ExSize() int {
	size, pow := 0, 1
	for n := 1; n <= c11ExMaxPods; n++ {
		pow *= 9
		size += pow * len(c11ExTargets)
	}
	return size
}

func TestVerifC11SmallExhaustive(t *testing.T) {
	size := c11ExSize()
	kit.Run(t, kit.Config{Property: "C11", Unit: "util-small-exhaustive", Quick: size, Thorough: size, Exhaustive: true,
		Rule: "complete enumeration: one BEMemoryEvict-shaped task, list of n = 1..5 pods in list order, every pod frees 0, 1 or 2 units and has fate Evict succeeds / Evict fails / already evicted (9^n combinations), target in {1,2,3,4,7}; 332145 inputs; distinct = (n, attempts, successes, met); non-trivial = at least one attempt"},
		func(c *kit.Case) {
			k := c.K
			n, pow := 1, 9
			for k >= pow*len(c11ExTargets) {
				k -= pow * len(c11ExTargets)
				n++
				pow *= 9
			}
			target := c11ExTargets[k%len(c11ExTargets)]
			k /= len(c11ExTargets)
			sc := &c11Scenario{plugin: "mem", pending: map[int]bool{}, apiMode: true}
			fail := map[int]bool{}
			tk := &c11Task{idx: 0, feature: "BEMemoryEvict", typ: ReleaseTargetTypeResourceUsed, resList: []corev1.ResourceName{corev1.ResourceMemory},
				target: map[corev1.ResourceName]int64{corev1.ResourceMemory: target}, reason: "c11 task 0 trigger by koordlet feature BEMemoryEvict"}
			for i := 0; i < n; i++ {
				d := k % 9
				k /= 9
				// list order = increasing priority, so a pod that frees nothing may precede useful ones
				p := &c11Pod{idx: i, name: fmt.Sprintf("p%d", i), ns: "default", objName: fmt.Sprintf("p%d", i), class: apiext.PriorityBatch, be: true, prio: apiext.PriorityBatchValueMin + int32(i),
					labelPrio: int64(apiext.PriorityBatchValueMin) + int64(i), hasMetric: d%3 > 0, usedMem: int64(d % 3), optOut: map[string]bool{}}
				switch d / 3 {
				case 1:
					fail[i] = true
				case 2:
					sc.pending[i] = true
				}
				p.pod = c11BuildPodObject(p)
				sc.pods = append(sc.pods, p)
				tk.list = append(tk.list, p)
			}
			sc.tasks = []*c11Task{tk}
			_, out, returned := c11Run(sc, func(_ int, p *c11Pod) bool { return !fail[p.idx] })
			c11CountOutcome(c, out)
			if out.attempts > 0 {
				c.NonTrivial()
			}
			c.Seen(n, out.attempts, out.successes, out.pendingSeen, out.metTasks)
			if len(out.findings) > 0 {
				c11LogScenario(c, sc)
				c.Op("fail=%v", fail)
				c11Report(c, out, returned, "per-pod fate")
			}
		})
}

// ---------------------------------------------------------------------------------------------
// (d) the opt-out predicate

var c11AllFeatures = []string{"BEMemoryEvict", "MemoryAllocatableEvict", "MemoryEvict", "BECPUEvict", "CPUAllocatableEvict", "CPUEvict"}

func TestVerifC11Policy(t *testing.T) {
	kit.Run(t, kit.Config{Property: "C11", Unit: "util-policy", Quick: 20000, Thorough: 200000,
		Rule: "pod with no annotations / unrelated annotations / eviction-policy annotation holding a JSON list of 0-4 feature names (also unknown and differently cased names) / malformed or non-list JSON, asked for each of the six policies; oracle: a well-formed list that does not name the policy means the pod opted out and the predicate must say false; distinct = (annotation shape, policy, listed, answer); non-trivial = annotation present"},
		func(c *kit.Case) {
			r := c.R
			policy := kit.Pick(r, c11AllFeatures)
			pod := &corev1.Pod{ObjectMeta: metav1.ObjectMeta{Name: "p", Namespace: "default"}}
			shape := r.Weighted(10, 10, 50, 15, 15)
			content, has := "", false
			switch shape {
			case 0:
			case 1:
				pod.Annotations = map[string]string{"unrelated": "x"}
			case 2:
				var list []string
				for i, m := 0, r.Intn(5); i < m; i++ {
					list = append(list, kit.Pick(r, append([]string{"memoryevict", "Other", ""}, c11AllFeatures...)))
				}
				if list == nil {
					list = []string{}
				}
				b, _ := json.Marshal(list)
				content, has = string(b), true
			case 3:
				content, has = kit.Pick(r, []string{"", "[", "MemoryEvict", `["MemoryEvict"`, `[MemoryEvict]`, "{", `["BEMemoryEvict",]`}), true
			default:
				content, has = kit.Pick(r, []string{`"MemoryEvict"`, `{"MemoryEvict":true}`, `[1,2]`, `null`, `true`, `[["MemoryEvict"]]`, `[null]`}), true
			}
			if has {
				pod.Annotations = map[string]string{apiext.AnnotationPodEvictPolicy: content, "unrelated": "x"}
				c.NonTrivial()
			}
			got := IsEvictionPolicyAllowed(policy, pod)
			c.Op("policy=%s annotation(%v)=%q -> allowed=%v", policy, has, content, got)
			c.Count("policy_checks", 1)
			var list []string
			wellFormed := has && json.Unmarshal([]byte(content), &list) == nil
			listed := false
			for _, s := range list {
				if s == policy {
					listed = true
				}
			}
			c.Seen(shape, policy, wellFormed, listed, got)
			switch {
			case wellFormed && !listed:
				c.Count("policy_opted_out", 1)
				if got {
					c.Fail("C11/eligibility/opt-out-ignored", "pod annotated %s=%s opted out of %s but IsEvictionPolicyAllowed says true", apiext.AnnotationPodEvictPolicy, content, policy)
				}
			case !has || (wellFormed && listed):
				c.Count("policy_allowed_expected", 1)
				if !got {
					c.Count("converse_misses_policy_refused_though_not_opted_out", 1)
				}
			default:
				c.Count("policy_malformed_annotation", 1)
				if got {
					c.Count("policy_malformed_annotation_allowed", 1)
				}
			}
		})
}
