//go:build verif

package deviceshare

// C07 concurrent monitor "first-events": the FIRST events for not-yet-cached nodes delivered by
// several goroutines at once, as the Pod, Reservation and Device informer handlers (which run on
// different goroutines) do at scheduler start or when a node joins. Every round uses a fresh
// nodeDeviceCache; 2-4 goroutines are released by one start barrier and deliver 1-3 events each:
// onDeviceAdd(node), onPodAdd(bound pod with a device-allocated annotation), onPodAdd(reserve pod of an
// available Reservation with such an annotation). The allocations are valid for the inventory and do not
// overlap (shares on one device add up to at most its total). Every object is delivered once, so there
// is no per-object order to respect; events of different objects may arrive in any order (a pod before
// its node's Device object included: updatePod creates the node entry itself).
//
// Oracle at quiescence (after the WaitGroup): the C07 ledger clauses on getNodeDeviceSummary() of every
// node - total == the delivered inventory, used == sum of the delivered pods' allocations, free == total -
// used, allocate set == the delivered pods. A lost update in the cache (e.g. two goroutines each creating
// the node entry) shows up as a missing inventory or a missing pod. Data races are reported by the race
// detector through the driver; a panic in a handler is recovered and reported.
//
// Yield points: harness-side (Gosched / sleeps of a few microseconds drawn from the case PRNG before and
// between a goroutine's events) and, when the unit is built with the instrumented device_cache.go,
// verifkit.Yield at the entry of newNodeDevice / getNodeDevice / updateNodeDevice / updateCacheUsed.

import (
	"fmt"
	"runtime"
	"runtime/debug"
	"sort"
	"strings"
	"sync"
	"testing"
	"time"

	corev1 "k8s.io/api/core/v1"
	"k8s.io/apimachinery/pkg/api/resource"
	metav1 "k8s.io/apimachinery/pkg/apis/meta/v1"
	"k8s.io/apimachinery/pkg/types"
	"k8s.io/klog/v2"

	apiext "github.com/koordinator-sh/koordinator/apis/extension"
	schedulingv1alpha1 "github.com/koordinator-sh/koordinator/apis/scheduling/v1alpha1"
	reservationutil "github.com/koordinator-sh/koordinator/pkg/util/reservation"
	kit "github.com/koordinator-sh/koordinator/pkg/verifkit"
)

func init() {
	klog.SetOutput(c07cDiscard{})
	klog.LogToStderr(false)
}

type c07cDiscard struct{}

func (c07cDiscard) Write(p []byte) (int, error) { return len(p), nil }

type c07cKey struct {
	t     schedulingv1alpha1.DeviceType
	minor int
	r     corev1.ResourceName
}

type c07cEvent struct {
	kind  string // "device", "pod", "reservation"
	node  string
	name  string
	dev   *schedulingv1alpha1.Device
	pod   *corev1.Pod
	alloc apiext.DeviceAllocations
}

func c07cQ(v int64) resource.Quantity { return *resource.NewQuantity(v, resource.DecimalSI) }

func c07cFlatten(m map[schedulingv1alpha1.DeviceType]deviceResources) map[c07cKey]int64 {
	out := map[c07cKey]int64{}
	for t, drs := range m {
		for minor, rl := range drs {
			for name, q := range rl {
				if v := q.MilliValue(); v != 0 {
					out[c07cKey{t, minor, name}] = v
				}
			}
		}
	}
	return out
}

func c07cKeys(ms ...map[c07cKey]int64) []c07cKey {
	seen := map[c07cKey]struct{}{}
	for _, m := range ms {
		for k := range m {
			seen[k] = struct{}{}
		}
	}
	out := make([]c07cKey, 0, len(seen))
	for k := range seen {
		out = append(out, k)
	}
	sort.Slice(out, func(i, j int) bool {
		if out[i].t != out[j].t {
			return out[i].t < out[j].t
		}
		if out[i].minor != out[j].minor {
			return out[i].minor < out[j].minor
		}
		return out[i].r < out[j].r
	})
	return out
}

const c07cGPUMem = int64(16 << 30)

// c07cGenNode builds the Device object of one node and the events of the pods / reservations bound to it.
func c07cGenNode(c *kit.Case, r *kit.Rand, node string) []*c07cEvent {
	ngpu, nrdma := r.Range(1, 4), r.Range(0, 2)
	dev := &schedulingv1alpha1.Device{ObjectMeta: metav1.ObjectMeta{Name: node}}
	for i := 0; i < ngpu; i++ {
		m := int32(i)
		dev.Spec.Devices = append(dev.Spec.Devices, schedulingv1alpha1.DeviceInfo{Type: schedulingv1alpha1.GPU, Minor: &m, Health: true, UUID: fmt.Sprintf("%s-gpu-%d", node, i),
			Resources: corev1.ResourceList{apiext.ResourceGPUCore: c07cQ(100), apiext.ResourceGPUMemoryRatio: c07cQ(100), apiext.ResourceGPUMemory: *resource.NewQuantity(c07cGPUMem, resource.BinarySI)}})
	}
	for i := 0; i < nrdma; i++ {
		m := int32(i)
		dev.Spec.Devices = append(dev.Spec.Devices, schedulingv1alpha1.DeviceInfo{Type: schedulingv1alpha1.RDMA, Minor: &m, Health: true, UUID: fmt.Sprintf("%s-rdma-%d", node, i),
			Resources: corev1.ResourceList{apiext.ResourceRDMA: c07cQ(100)}})
	}
	evs := []*c07cEvent{{kind: "device", node: node, name: node, dev: dev}}
	// holders: every one takes a whole free GPU, or a share of a GPU that still has room, optionally a share of a RDMA device
	gpuFree := make([]int64, ngpu)
	for i := range gpuFree {
		gpuFree[i] = 100
	}
	rdmaFree := make([]int64, nrdma)
	for i := range rdmaFree {
		rdmaFree[i] = 100
	}
	nh := r.Range(1, 3)
	for h := 0; h < nh; h++ {
		alloc := apiext.DeviceAllocations{}
		g := r.Intn(ngpu)
		want := int64(kit.Pick(r, []int{100, 100, 50, 50, 25, 34}))
		if gpuFree[g] < want {
			want = gpuFree[g]
		}
		if want > 0 {
			gpuFree[g] -= want
			alloc[schedulingv1alpha1.GPU] = []*apiext.DeviceAllocation{{Minor: int32(g), Resources: corev1.ResourceList{
				apiext.ResourceGPUCore: c07cQ(want), apiext.ResourceGPUMemoryRatio: c07cQ(want), apiext.ResourceGPUMemory: *resource.NewQuantity(want*c07cGPUMem/100, resource.BinarySI)}}}
		}
		if nrdma > 0 && r.Pct(40) {
			d := r.Intn(nrdma)
			q := int64(kit.Pick(r, []int{1, 25, 50, 100}))
			if rdmaFree[d] >= q {
				rdmaFree[d] -= q
				alloc[schedulingv1alpha1.RDMA] = []*apiext.DeviceAllocation{{Minor: int32(d), Resources: corev1.ResourceList{apiext.ResourceRDMA: c07cQ(q)}}}
			}
		}
		if len(alloc) == 0 {
			continue
		}
		name := fmt.Sprintf("%s-h%d", node, h)
		if r.Pct(25) {
			// an available Reservation that holds devices: the Reservation informer's handler turns it into its reserve pod
			res := &schedulingv1alpha1.Reservation{
				ObjectMeta: metav1.ObjectMeta{Name: name, UID: types.UID("uid-" + name)},
				Spec:       schedulingv1alpha1.ReservationSpec{Template: &corev1.PodTemplateSpec{Spec: corev1.PodSpec{Containers: []corev1.Container{{Name: "main"}}}}},
				Status:     schedulingv1alpha1.ReservationStatus{NodeName: node, Phase: schedulingv1alpha1.ReservationAvailable},
			}
			if err := apiext.SetDeviceAllocations(res, alloc); err != nil {
				c.Harness("SetDeviceAllocations: %v", err)
			}
			pod := reservationutil.NewReservePod(res)
			if pod.Spec.NodeName != node {
				c.Harness("reserve pod of %s is not on node %s", name, node)
			}
			evs = append(evs, &c07cEvent{kind: "reservation", node: node, name: pod.Namespace + "/" + pod.Name, pod: pod, alloc: alloc})
			continue
		}
		pod := &corev1.Pod{ObjectMeta: metav1.ObjectMeta{Namespace: "default", Name: name, UID: types.UID("uid-" + name)},
			Spec: corev1.PodSpec{NodeName: node, Containers: []corev1.Container{{Name: "main"}}}, Status: corev1.PodStatus{Phase: corev1.PodRunning}}
		if err := apiext.SetDeviceAllocations(pod, alloc); err != nil {
			c.Harness("SetDeviceAllocations: %v", err)
		}
		evs = append(evs, &c07cEvent{kind: "pod", node: node, name: "default/" + name, pod: pod, alloc: alloc})
	}
	return evs
}

func c07cAllocStr(a apiext.DeviceAllocations) string {
	var parts []string
	for _, t := range []schedulingv1alpha1.DeviceType{schedulingv1alpha1.GPU, schedulingv1alpha1.RDMA} {
		for _, x := range a[t] {
			for _, name := range []corev1.ResourceName{apiext.ResourceGPUCore, apiext.ResourceRDMA} {
				if q, ok := x.Resources[name]; ok {
					parts = append(parts, fmt.Sprintf("%s%d=%d", t, x.Minor, q.Value()))
				}
			}
		}
	}
	return strings.Join(parts, ",")
}

func c07cPause(r *kit.Rand) {
	switch v := r.Intn(10); {
	case v < 4:
	case v < 7:
		runtime.Gosched()
	case v < 9:
		time.Sleep(time.Duration(r.Range(1, 30)) * time.Microsecond)
	default:
		time.Sleep(time.Duration(r.Range(50, 200)) * time.Microsecond)
	}
}

var (
	c07cSigMu sync.Mutex
	c07cSigs  = map[string]struct{}{}
)

func TestVerifC07FirstEvents(t *testing.T) {
	kit.Run(t, kit.Config{Property: "C07", Unit: "first-events", Quick: 8000, Thorough: 200000,
		Rule: "one round per case on a fresh nodeDeviceCache: 1-2 uncached nodes, each with a Device object (1-4 GPUs, 0-2 RDMA) and 1-3 bound pods / available Reservations carrying valid, non-overlapping device-allocated annotations; 2-4 goroutines behind one start barrier deliver these first events (onDeviceAdd / onPodAdd / onPodAdd of the reserve pod), 1-3 each, with PRNG-drawn yields between them (plus verifkit.Yield at the instrumented entries of device_cache.go in 70 % of the rounds); ledger oracle on every node at quiescence; distinct = observed event completion orders (kind, node) and yield-point sequences; non-trivial = round in which at least two goroutines' first event addressed the same uncached node"},
		func(c *kit.Case) {
			r := c.R
			cache := newNodeDeviceCache()
			nodes := []string{"n0"}
			if r.Pct(35) {
				nodes = append(nodes, "n1")
			}
			var evs []*c07cEvent
			for _, n := range nodes {
				evs = append(evs, c07cGenNode(c, r, n)...)
			}
			kit.Shuffle(r, evs)
			ng := r.Range(2, 4)
			if ng > len(evs) {
				ng = len(evs)
			}
			if len(evs) > 3*ng {
				evs = evs[:3*ng] // the rest is never delivered (and not expected)
			}
			// the Device object of a node may have been cut off; then the node's total is expected empty
			plan := make([][]*c07cEvent, ng)
			for i, e := range evs {
				g := i
				if i >= ng {
					g = r.Intn(ng)
					for len(plan[g]) >= 3 {
						g = (g + 1) % ng
					}
				}
				plan[g] = append(plan[g], e)
			}
			firstOn := map[string]int{}
			for g := range plan {
				firstOn[plan[g][0].node]++
				for i, e := range plan[g] {
					c.Op("goroutine %d event %d: %s %s on %s %s", g, i, e.kind, e.name, e.node, c07cAllocStr(e.alloc))
				}
			}
			same := false
			for _, k := range firstOn {
				if k >= 2 {
					same = true
				}
			}
			if same {
				c.NonTrivial()
				c.Count("rounds_with_2plus_goroutines_first_on_same_uncached_node", 1)
			}
			c.Count("rounds", 1)
			c.Count("concurrent_events", len(evs))
			c.Count("goroutines", ng)
			yielding := r.Pct(70)
			if yielding {
				kit.EnableYield(r.Fork())
				c.Count("rounds_with_instrumented_yields_enabled", 1)
			}
			rands := make([]*kit.Rand, ng)
			for g := range rands {
				rands[g] = r.Fork()
			}
			var (
				wg    sync.WaitGroup
				mu    sync.Mutex
				order []string
				start = make(chan struct{})
			)
			for g := 0; g < ng; g++ {
				wg.Add(1)
				go func(g int) {
					defer wg.Done()
					defer func() {
						if e := recover(); e != nil {
							c.Report("C07/panic/first-events", "panic in an event handler: %v\n%s", e, debug.Stack())
						}
					}()
					gr := rands[g]
					<-start
					for _, e := range plan[g] {
						c07cPause(gr)
						switch e.kind {
						case "device":
							cache.onDeviceAdd(e.dev)
						default:
							cache.onPodAdd(e.pod)
						}
						mu.Lock()
						order = append(order, fmt.Sprintf("%c%s", e.kind[0], e.node[1:]))
						mu.Unlock()
					}
				}(g)
			}
			close(start)
			wg.Wait()
			sig := strings.Join(order, " ")
			if yielding {
				sig += "|" + kit.DisableYield()
			}
			c.Seen("interleaving", sig)
			c07cSigMu.Lock()
			if _, ok := c07cSigs[sig]; !ok {
				c07cSigs[sig] = struct{}{}
				c.Count("distinct_interleaving_signatures", 1) // completion order of the events + sequence of instrumented yield points
			}
			c07cSigMu.Unlock()
			c.Op("completion order: %s", strings.Join(order, " "))

			// ---- oracle at quiescence
			for _, n := range nodes {
				wantTotal := map[c07cKey]int64{}
				wantUsed := map[c07cKey]int64{}
				wantPods := map[schedulingv1alpha1.DeviceType]map[string]map[c07cKey]int64{}
				delivered := false
				for _, e := range evs {
					if e.node != n {
						continue
					}
					delivered = true
					if e.kind == "device" {
						for _, d := range e.dev.Spec.Devices {
							for name, q := range d.Resources {
								wantTotal[c07cKey{d.Type, int(*d.Minor), name}] = q.MilliValue()
							}
						}
						continue
					}
					for t, as := range e.alloc {
						for _, a := range as {
							for name, q := range a.Resources {
								k := c07cKey{t, int(a.Minor), name}
								wantUsed[k] += q.MilliValue()
								if wantPods[t] == nil {
									wantPods[t] = map[string]map[c07cKey]int64{}
								}
								if wantPods[t][e.name] == nil {
									wantPods[t][e.name] = map[c07cKey]int64{}
								}
								wantPods[t][e.name][k] = q.MilliValue()
							}
						}
					}
				}
				s, ok := cache.getNodeDeviceSummary(n)
				if !ok {
					if delivered {
						c.Fail("C07/first-events/node-entry-missing", "node %s has no cache entry although events for it were delivered", n)
					}
					continue
				}
				total, used, free := c07cFlatten(s.DeviceTotalDetail), c07cFlatten(s.DeviceUsedDetail), c07cFlatten(s.DeviceFreeDetail)
				for _, k := range c07cKeys(wantTotal, total) {
					if wantTotal[k] != total[k] {
						c.Fail("C07/first-events/total-not-delivered-inventory", "node %s %s minor %d %s: total %d (milli), the delivered Device object says %d; completion order %v", n, k.t, k.minor, k.r, total[k], wantTotal[k], order)
					}
				}
				for _, k := range c07cKeys(wantUsed, used) {
					if wantUsed[k] != used[k] {
						c.Fail("C07/first-events/used-not-sum-of-delivered-pods", "node %s %s minor %d %s: used %d (milli), the delivered pods' allocations add up to %d; completion order %v", n, k.t, k.minor, k.r, used[k], wantUsed[k], order)
					}
				}
				for _, k := range c07cKeys(total, used, free) {
					exp := total[k] - used[k]
					if exp < 0 {
						exp = 0
					}
					if free[k] != exp {
						c.Fail("C07/first-events/free-not-total-minus-used", "node %s %s minor %d %s: free %d (milli), total %d - used %d; completion order %v", n, k.t, k.minor, k.r, free[k], total[k], used[k], order)
					}
				}
				for _, t := range []schedulingv1alpha1.DeviceType{schedulingv1alpha1.GPU, schedulingv1alpha1.RDMA} {
					names := map[string]struct{}{}
					for k := range wantPods[t] {
						names[k] = struct{}{}
					}
					for k, v := range s.AllocateSet[t] {
						if len(v) > 0 {
							names[k] = struct{}{}
						}
					}
					sorted := make([]string, 0, len(names))
					for k := range names {
						sorted = append(sorted, k)
					}
					sort.Strings(sorted)
					for _, name := range sorted {
						got := c07cFlatten(map[schedulingv1alpha1.DeviceType]deviceResources{t: s.AllocateSet[t][name]})
						for _, k := range c07cKeys(wantPods[t][name], got) {
							if wantPods[t][name][k] != got[k] {
								c.Fail("C07/first-events/allocate-set-not-delivered-pods", "node %s %s: allocate set of %s has minor %d %s=%d (milli), delivered %d; completion order %v", n, t, name, k.minor, k.r, got[k], wantPods[t][name][k], order)
							}
						}
					}
				}
				c.Count("ledger_checks_at_quiescence", 1)
			}
			if c.K < 2 {
				c.Sample(map[string]any{"nodes": len(nodes), "goroutines": ng, "events": len(evs), "completion_order": strings.Join(order, " ")})
			}
		})
}
