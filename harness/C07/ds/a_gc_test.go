//go:build verif

package deviceshare

// C07 unit "node-gc": what the cache says after gcNodeDevice dropped the entry of a node whose Node object
// was missing from the lister for one GC tick while pods bound to the node still exist, and the node's
// Device object then comes back.
//
// The history is what a Node object deleted and registered again produces (kubectl delete node + kubelet
// restart, node re-registration by a cloud controller): the pods stay bound to the node name and survive
// if the Node is back before the pod garbage collector's quarantine (40 s) ends; the Device object is owned
// by the Node (koordlet sets an owner reference with the Node's UID), so it is deleted by the cascade and
// re-created by koordlet's next report for the new Node. The scheduler sees: Node delete, Device delete (in
// either order relative to the 3 s GC tick), GC tick with the Node missing, Node add, Device add - and no
// pod event at all, because nothing happened to the pods.
//
// The real gcNodeDevice runs here against a real node informer on a fake clientset; it is called
// synchronously with a context that ends after 100 ms (it ticks immediately, the period is 10 ms). The
// oracle is evaluated only after it returned. The file sorts before c07_test.go so that this unit runs
// before the plugin suite of the ledger unit registers its informers.

import (
	"context"
	"fmt"
	"testing"
	"time"

	corev1 "k8s.io/api/core/v1"
	metav1 "k8s.io/apimachinery/pkg/apis/meta/v1"
	"k8s.io/client-go/informers"
	kubefake "k8s.io/client-go/kubernetes/fake"

	frameworkexthelper "github.com/koordinator-sh/koordinator/pkg/scheduler/frameworkext/helper"
	kit "github.com/koordinator-sh/koordinator/pkg/verifkit"
)

func TestVerifC07NodeGC(t *testing.T) {
	kit.Run(t, kit.Config{Property: "C07", Unit: "node-gc", Quick: 12, Thorough: 240,
		Rule: "one node with 1-8 GPUs (+RDMA/FPGA), 1-3 pods allocated through the real allocator and committed (some bound, some only reserved); the Node object disappears from a real node informer, the Device object is deleted (before or after the tick), the real gcNodeDevice ticks, Node and Device object come back; then 0-3 follow-ups (ordinary update of a pod, new allocation); ledger oracle after every step; distinct = (pods holding, order of Device delete and tick, follow-up, outcome); non-trivial = the GC tick dropped an entry that live pods had allocations in"},
		func(c *kit.Case) {
			r := c.R
			frameworkexthelper.ResetRegistrations()
			cache := newNodeDeviceCache()
			var n *c07Node
			for n == nil || len(n.devsOf(c07GPU)) == 0 {
				n = c07GenNode(r, "n0", false, false, false)
			}
			client := kubefake.NewSimpleClientset(&corev1.Node{ObjectMeta: metav1.ObjectMeta{Name: "n0"}}, &corev1.Node{ObjectMeta: metav1.ObjectMeta{Name: "bystander"}})
			factory := informers.NewSharedInformerFactory(client, 0)
			lister := factory.Core().V1().Nodes().Lister()
			factory.Core().V1().Nodes().Informer()
			ctx, cancelAll := context.WithCancel(context.Background())
			defer cancelAll()
			factory.Start(ctx.Done())
			factory.WaitForCacheSync(ctx.Done())
			waitLister := func(present bool) {
				for i := 0; i < 5000; i++ {
					_, err := lister.Get("n0")
					if (err == nil) == present {
						return
					}
					time.Sleep(time.Millisecond)
				}
				c.Harness("node lister never showed n0 present=%v", present)
			}
			waitLister(true)

			pods := make([]*c07Pod, r.Range(2, 4))
			for i := range pods {
				pods[i] = &c07Pod{name: fmt.Sprintf("p%d", i)}
			}
			forgotten := map[*c07Pod]bool{}
			visible := func() []*c07Pod {
				var out []*c07Pod
				for _, p := range pods {
					if !forgotten[p] {
						out = append(out, p)
					}
				}
				return out
			}
			var snap *c07Snap
			dropped := false
			sameUsed := func(a, b map[c07Key]int64) bool {
				for _, k := range c07Keys(a, b) {
					if a[k] != b[k] {
						return false
					}
				}
				return true
			}
			// check: the ledger oracle of the ledger unit. If the only thing wrong is that the pods the cache
			// forgot when the GC tick dropped the node's entry are missing (everything else - totals, free,
			// the other pods, the allocate set - is exactly right), it is reported under the dedicated signature.
			check := func(where string) {
				post := c07Observe(c, cache, n.name)
				if snap == nil {
					snap = &c07Snap{total: map[c07Key]int64{}, free: map[c07Key]int64{}, used: map[c07Key]int64{}}
				}
				if len(forgotten) > 0 && dropped && !sameUsed(post.used, c07LiveUsed(pods, n)) {
					c07Check(c, where, n, visible(), snap, post, "")
					names := ""
					for _, p := range pods {
						if forgotten[p] {
							names += fmt.Sprintf(" %s(%s: %s)", p.name, c07StateNames[p.state], c07Allocs(p.alloc))
						}
					}
					c.Report("C07/ledger/used-not-sum-of-live-pods/node-entry-dropped-by-gc", "%s: node %s: the cache no longer accounts for live pod(s)%s: gcNodeDevice dropped the node's entry while the Node object was missing from the lister for one tick, the Device object re-created an empty entry, and no pod event is due", where, n.name, names)
					c.Count("checks_with_live_pods_forgotten_after_gc", 1)
				} else {
					c07Check(c, where, n, pods, snap, post, "")
				}
				snap = post
			}
			allocate := func(p *c07Pod, sh *c07Shape) bool {
				p.unassigned = c07NewPodObj(p, sh)
				state, st := preparePod(p.unassigned, nil, nil)
				if !st.IsSuccess() || state.skip {
					c.Harness("preparePod rejected %s", sh.class)
				}
				nd := cache.getNodeDevice(n.name, false)
				al := &AutopilotAllocator{state: state, nodeDevice: nd, node: n.obj, pod: p.unassigned}
				nd.lock.RLock()
				res, st := al.Allocate(nil, nil, nil, nil)
				ok := st.IsSuccess()
				if ok {
					ok = fillGPUTotalMem(res, nd) == nil
				}
				nd.lock.RUnlock()
				c.Op("allocate %s: %s %s -> ok=%v %s [%s]", p.name, sh.class, c07RL(sh.requests), ok, c07Allocs(res), st.Message())
				if !ok {
					return false
				}
				nd.lock.Lock()
				nd.updateCacheUsed(res, p.unassigned, true)
				nd.lock.Unlock()
				p.alloc, p.node, p.state = c07CopyAllocs(res), n, c07Reserved
				p.memUnit = sh.memUnit
				if w := sh.want[c07GPU]; w != nil {
					p.gpuPer = w.per
				}
				return true
			}

			n.crLive, n.lastCR = true, n.buildCR()
			cache.onDeviceAdd(n.lastCR.DeepCopy())
			c.Op("inventory %s add: %s", n.name, n.describe())
			check("inventory add")
			holders := 0
			for _, p := range pods[:len(pods)-1] {
				sh := c07GenShape(r, n)
				for !sh.plain {
					sh = c07GenShape(r, n)
				}
				if !allocate(p, sh) {
					continue
				}
				holders++
				check("allocate " + p.name)
				if r.Pct(70) {
					p.assigned = c07Assign(c, p.unassigned, n.name, p.alloc)
					cache.onPodUpdate(p.unassigned.DeepCopy(), p.assigned.DeepCopy())
					p.state = c07Bound
					c.Op("bind event %s", p.name)
					check("bind event " + p.name)
				}
			}

			// ---- the Node object goes away and comes back
			if err := client.CoreV1().Nodes().Delete(ctx, "n0", metav1.DeleteOptions{}); err != nil {
				c.Harness("delete node: %v", err)
			}
			waitLister(false)
			c.Op("Node object n0 deleted (lister no longer has it)")
			deviceDeleteFirst := r.Bool()
			deviceDelete := func() {
				cache.onDeviceDelete(n.lastCR.DeepCopy())
				n.crLive = false
				c.Op("Device object n0 deleted (cascade of the Node's deletion)")
			}
			if deviceDeleteFirst {
				deviceDelete()
				check("device delete")
			}
			gcCtx, cancel := context.WithTimeout(ctx, 100*time.Millisecond)
			cache.gcNodeDevice(gcCtx, factory, 10*time.Millisecond)
			cancel()
			c.Count("gc_runs_with_node_missing", 1)
			if _, still := cache.getNodeDeviceSummary(n.name); !still {
				dropped = true
				c.Op("gcNodeDevice ticked: entry of n0 dropped (%d pod(s) held devices there)", holders)
				c.Count("gc_dropped_entry", 1)
				for _, p := range pods {
					if p.live() {
						forgotten[p] = true
					}
				}
				if holders > 0 {
					c.NonTrivial()
					c.Count("gc_dropped_entry_of_node_with_live_allocations", 1)
				}
			} else {
				c.Op("gcNodeDevice ticked: entry of n0 kept")
				c.Count("gc_kept_entry", 1)
			}
			if !deviceDeleteFirst {
				deviceDelete()
				if !dropped {
					check("device delete")
				}
			}
			if _, err := client.CoreV1().Nodes().Create(ctx, &corev1.Node{ObjectMeta: metav1.ObjectMeta{Name: "n0"}}, metav1.CreateOptions{}); err != nil {
				c.Harness("re-create node: %v", err)
			}
			waitLister(true)
			n.crLive, n.lastCR = true, n.buildCR()
			cache.onDeviceAdd(n.lastCR.DeepCopy())
			if dropped {
				snap = nil
			}
			c.Op("Node object n0 registered again; Device object n0 re-created by koordlet: %s", n.describe())
			check("device re-add after node gc")

			// ---- follow-ups
			outcome := "none"
			for i, k := 0, r.Range(0, 3); i < k; i++ {
				if r.Bool() {
					// an ordinary later version of a bound pod (or the bind event of a reserved one)
					var cand []*c07Pod
					for _, p := range pods {
						if p.live() {
							cand = append(cand, p)
						}
					}
					if len(cand) == 0 {
						continue
					}
					p := kit.Pick(r, cand)
					if p.state == c07Reserved {
						p.assigned = c07Assign(c, p.unassigned, n.name, p.alloc)
						cache.onPodUpdate(p.unassigned.DeepCopy(), p.assigned.DeepCopy())
						p.state = c07Bound
						c.Op("bind event %s", p.name)
					} else {
						next := p.assigned.DeepCopy()
						if next.Labels == nil {
							next.Labels = map[string]string{}
						}
						next.Labels["rev"] = fmt.Sprint(i)
						cache.onPodUpdate(p.assigned.DeepCopy(), next.DeepCopy())
						p.assigned = next
						c.Op("update (new label) of bound %s", p.name)
					}
					if forgotten[p] {
						delete(forgotten, p)
						c.Count("forgotten_pods_healed_by_a_later_pod_update", 1)
						outcome = "healed"
					}
					check("pod update " + p.name)
					continue
				}
				// a new pod asks for a whole GPU
				p := pods[len(pods)-1]
				if p.state != c07Idle {
					continue
				}
				// a new pod asks for whole card(s) by a resource the node's cards expose
				sh := c07GenShape(r, n)
				for tries := 0; tries < 50 && !(sh.plain && sh.want[c07GPU] != nil && sh.memUnit == "ratio"); tries++ {
					sh = c07GenShape(r, n)
				}
				if !sh.plain || sh.want[c07GPU] == nil {
					continue
				}
				heldByForgotten := map[int32]string{}
				for fp := range forgotten {
					for _, a := range fp.alloc[c07GPU] {
						heldByForgotten[a.Minor] = fp.name
					}
				}
				if !allocate(p, sh) {
					continue
				}
				for _, a := range p.alloc[c07GPU] {
					if owner, ok := heldByForgotten[a.Minor]; ok {
						c.Report("C07/ledger/used-not-sum-of-live-pods/node-entry-dropped-by-gc", "node %s: GPU minor %d, which live pod %s holds, was granted again to %s: the cache forgot %s when gcNodeDevice dropped the node's entry", n.name, a.Minor, owner, p.name, owner)
						c.Count("gpus_of_forgotten_pods_granted_again", 1)
						c.Seen("node-gc", holders, deviceDeleteFirst, dropped, "double-grant")
						return // what follows (over-commit when the forgotten pod is seen again) is a consequence
					}
				}
				check("allocate " + p.name)
			}
			c.Seen("node-gc", holders, deviceDeleteFirst, dropped, outcome)
		})
}
