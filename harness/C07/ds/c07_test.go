//go:build verif

package deviceshare

// C07 monitor: device ledgers (total / free / used / per-pod allocate set) of a real nodeDeviceCache
// under histories of inventory refreshes, allocate+commit, releases and duplicate / stale pod
// events, and the allocator's decisions. See /verif/DESIGN.md section 4, C07.
//
// Causal rules of the generated histories (what the real system can produce):
//   * A node's Device object is added before anything is allocated on the node; afterwards it is
//     updated (any content: unhealthy devices, zero resources, missing minors, missing types,
//     changed totals), deleted and re-added. Inventory events of one node arrive in order.
//   * A pod name goes through  idle -> reserved (allocate + commit in one scheduling cycle, on the
//     UNASSIGNED pod object) -> bound (informer update unassigned -> assigned carrying the
//     device-allocated annotation that PreBind writes = exactly the committed allocation) ->
//     terminated (update with phase Succeeded/Failed) -> deleted; reserved pods may be unreserved,
//     bound pods may be deleted or forgotten directly. After the delete the name is re-used with a
//     new UID. Informer events of one pod arrive in version order: unassigned versions never follow
//     an assigned one, nothing follows the delete.
//   * The annotation of a pod never changes once written. An allocation is committed back to back
//     with the Allocate that produced it (Reserve does both in one call).
//   * Duplicates: re-delivery of the current version (add / update without change / update that
//     only changes a label), events of the still-unassigned object while the scheduler already reserved, update
//     and delete after the terminated update, and "ghost" pods that the cache never held (a pod that
//     was already terminated when first listed, later deleted) whose annotation names devices that
//     other pods hold now.
//   * "restart" adds: an assigned pod that the cache does not hold yet is delivered by the informer
//     with an allocation that the real allocator computed against the current state.
//
// Quantities are compared as exact integers (MilliValue of the Quantity; every generated amount is
// integral and far below 2^53), zero and absent entries are the same thing.

import (
	"context"
	"encoding/json"
	"fmt"
	"sort"
	"strings"
	"sync"
	"testing"

	corev1 "k8s.io/api/core/v1"
	"k8s.io/apimachinery/pkg/api/resource"
	metav1 "k8s.io/apimachinery/pkg/apis/meta/v1"
	"k8s.io/apimachinery/pkg/types"
	"k8s.io/apimachinery/pkg/util/sets"
	"k8s.io/klog/v2"
	fwktype "k8s.io/kube-scheduler/framework"
	"k8s.io/kubernetes/pkg/scheduler/framework"

	apiext "github.com/koordinator-sh/koordinator/apis/extension"
	schedulingv1alpha1 "github.com/koordinator-sh/koordinator/apis/scheduling/v1alpha1"
	schedulerconfig "github.com/koordinator-sh/koordinator/pkg/scheduler/apis/config"
	"github.com/koordinator-sh/koordinator/pkg/scheduler/frameworkext/hinter"
	"github.com/koordinator-sh/koordinator/pkg/scheduler/frameworkext/schedulingphase"
	"github.com/koordinator-sh/koordinator/pkg/scheduler/frameworkext/topologymanager"
	"github.com/koordinator-sh/koordinator/pkg/util/bitmask"
	kit "github.com/koordinator-sh/koordinator/pkg/verifkit"
)

func init() {
	klog.SetOutput(c07Discard{})
	klog.LogToStderr(false)
}

type c07Discard struct{}

func (c07Discard) Write(p []byte) (int, error) { return len(p), nil }

const (
	c07GPU  = schedulingv1alpha1.GPU
	c07RDMA = schedulingv1alpha1.RDMA
	c07FPGA = schedulingv1alpha1.FPGA
)

var c07Types = []schedulingv1alpha1.DeviceType{c07GPU, c07RDMA, c07FPGA}

// ---------------------------------------------------------------------------------------------
// the plugin (built once per process with the package's own suite; every case installs a fresh cache)

var (
	c07Once sync.Once
	c07Pl   *Plugin
	// the Node objects Plugin.Reserve gets from the snapshot; labels are set per case
	c07NodeObjs = map[string]*corev1.Node{
		"n0": {ObjectMeta: metav1.ObjectMeta{Name: "n0"}},
		"n1": {ObjectMeta: metav1.ObjectMeta{Name: "n1"}},
		"n2": {ObjectMeta: metav1.ObjectMeta{Name: "n2"}},
	}
	c07PlMost *Plugin // same plugin configured with the MostAllocated scoring strategy
)

func c07Plugin(t *testing.T) *Plugin {
	c07Once.Do(func() {
		nodes := []*corev1.Node{c07NodeObjs["n0"], c07NodeObjs["n1"], c07NodeObjs["n2"]}
		{
			suit2 := newPluginTestSuit(t, nodes)
			args := getDefaultArgs()
			args.ScoringStrategy.Type = schedulerconfig.MostAllocated
			p2, err := suit2.proxyNew(context.TODO(), args, suit2.Framework)
			if err != nil {
				t.Fatalf("cannot build the deviceshare plugin (MostAllocated): %v", err)
			}
			c07PlMost = p2.(*Plugin)
		}
		suit := newPluginTestSuit(t, nodes)
		p, err := suit.proxyNew(context.TODO(), getDefaultArgs(), suit.Framework)
		if err != nil {
			t.Fatalf("cannot build the deviceshare plugin: %v", err)
		}
		c07Pl = p.(*Plugin)
	})
	return c07Pl
}

// ---------------------------------------------------------------------------------------------
// inventory model (what the harness last told the cache)

type c07Dev struct {
	typ     schedulingv1alpha1.DeviceType
	minor   int32
	base    corev1.ResourceList
	res     corev1.ResourceList
	health  bool
	present bool
	numa    int32
	socket  int32
	pcie    string
	vfs     int
	label   string // device label grp=<label>
}

type c07Node struct {
	name     string
	obj      *corev1.Node
	devs     []*c07Dev
	topo     bool
	vf       bool
	crLive   bool
	lastCR   *schedulingv1alpha1.Device
	gpuMem   int64
	typeGone map[schedulingv1alpha1.DeviceType]bool
	// memBytes: the case also uses GPU memory requests in bytes. It is kept to a fixed share of the cases
	// because "GPU memory checked in the requested unit (bytes or ratio) only, booked in both" is a known
	// finding with its own signature (c07MixedUnits); the other cases stay free of it.
	// memResize: inventory updates may change the memory size a GPU reports - but only while no live pod
	// holds that GPU (a card swapped during maintenance). A GPU whose memory size changes under a running
	// pod does not exist: the size is a hardware constant that koordlet reads from the driver, a MIG
	// re-partition needs an idle GPU, and after a card swap / reboot no pod of the old card is left.
	memBytes, memResize bool
	partCase            bool // the case has partitioned nodes and pods with partition specs
	npu                 bool // the GPUs are Huawei NPUs
	wellPlanned         bool // Device label secondary-device-well-planned=true
	// omitMinor0: the device reporter leaves the optional field `minor` out for the device whose minor is 0 (a
	// serializer that omits zero values). The CRD requires only `health`; most of the package reads the field with
	// ptr.Deref(minor, 0), so the inventory means the same as with an explicit 0.
	omitMinor0 bool
	// GPU partitions: part = "" (none), "label" (node label gpu-model of a model with a built-in table) or
	// "annotation" (table annotated on the Device object). honor = the node says partitions must be honored
	// (label gpu-partition-policy=Honor, put on the Node and on the Device object alike). table: size -> minor
	// sets; mixedScore[size] = the partitions of that size do not all have the same allocation score.
	part       string
	honor      bool
	table      map[int][][]int
	mixedScore map[int]bool
	tableJSON  string
	// machine layout: number of NUMA nodes and how many of them share a CPU socket (1: NUMA id == socket id;
	// 2: sub-NUMA clustering / NPS2, NUMA 0,1 on socket 0, NUMA 2,3 on socket 1)
	numaCount, numaPerSocket int
}

type c07Key struct {
	t     schedulingv1alpha1.DeviceType
	minor int
	r     corev1.ResourceName
}

type c07DevKey struct {
	t     schedulingv1alpha1.DeviceType
	minor int
}

func c07Q(v int64) resource.Quantity { return *resource.NewQuantity(v, resource.DecimalSI) }

func c07QB(v int64) resource.Quantity { return *resource.NewQuantity(v, resource.BinarySI) }

var c07MemPool = []int64{16 << 30, 85198045184, 15843721216, 24 << 30, 1000003, 8 << 30, 32 << 30, 151397597184}

func c07GenNode(r *kit.Rand, name string, memBytes, memResize, partitioned bool) *c07Node {
	n := &c07Node{partCase: partitioned, memBytes: memBytes, memResize: memResize, name: name, obj: c07NodeObjs[name], typeGone: map[schedulingv1alpha1.DeviceType]bool{}}
	n.obj.Labels = nil
	n.topo = r.Pct(50)
	if partitioned && r.Pct(80) {
		n.part = kit.Pick(r, []string{"label", "annotation"})
		n.honor = r.Pct(40)
		n.topo = r.Pct(75)
	}
	n.vf = n.topo && r.Pct(60)
	n.gpuMem = kit.Pick(r, c07MemPool)
	ngpu := kit.Pick(r, []int{0, 1, 1, 1, 2, 2, 2, 3, 4, 4, 4, 6, 8, 8, 16})
	nrdma := kit.Pick(r, []int{0, 0, 0, 1, 2, 2, 2, 4, 4, 8})
	nfpga := kit.Pick(r, []int{0, 0, 0, 0, 0, 1, 1, 2, 2, 4})
	if ngpu+nrdma+nfpga == 0 {
		ngpu = 2
	}
	if n.part != "" {
		ngpu = kit.Pick(r, []int{4, 4, 6, 8, 8, 8})
		n.buildPartitions(r, ngpu)
	}
	// NPU node: the "GPUs" are Huawei Ascend cards (no gpu-core; npu-core / npu-cpu / npu-dvpp instead)
	n.npu = !partitioned && ngpu > 0 && r.Pct(6)
	hetero := r.Pct(15) // GPUs of different memory sizes on one node
	n.numaCount = kit.Pick(r, []int{2, 2, 2, 4})
	n.numaPerSocket = kit.Pick(r, []int{1, 1, 2})
	add := func(t schedulingv1alpha1.DeviceType, cnt int, firstMinor int32, res func() corev1.ResourceList) {
		half := (cnt + n.numaCount - 1) / n.numaCount
		if half < 1 {
			half = 1
		}
		// minor numbering: contiguous (mostly), starting above 0, or with holes (cards removed / renumbered)
		scheme := 0
		if n.part == "" {
			scheme = r.Weighted(70, 10, 20)
		}
		if scheme == 1 {
			firstMinor += int32(r.Range(1, 3))
		}
		next := firstMinor
		for i := 0; i < cnt; i++ {
			if scheme == 2 && r.Pct(30) {
				next += int32(r.Range(1, 2))
			}
			d := &c07Dev{typ: t, minor: next, health: true, present: true, label: kit.Pick(r, []string{"a", "a", "b"})}
			next++
			d.base = res()
			d.res = d.base.DeepCopy()
			d.numa = int32(i / half)
			d.socket = d.numa / int32(n.numaPerSocket)
			d.pcie = fmt.Sprintf("%d-%d", d.numa, (i%half)/2)
			if t == c07RDMA && n.vf {
				d.vfs = r.Range(1, 3)
			}
			n.devs = append(n.devs, d)
		}
	}
	add(c07GPU, ngpu, 0, func() corev1.ResourceList {
		mem := n.gpuMem
		if hetero {
			mem = kit.Pick(r, c07MemPool)
		}
		if n.npu {
			return corev1.ResourceList{apiext.ResourceHuaweiNPUCore: c07Q(8), apiext.ResourceHuaweiNPUCPU: c07Q(7), apiext.ResourceHuaweiNPUDVPP: c07Q(100),
				apiext.ResourceGPUMemoryRatio: c07Q(100), apiext.ResourceGPUMemory: c07QB(mem)}
		}
		return corev1.ResourceList{apiext.ResourceGPUCore: c07Q(100), apiext.ResourceGPUMemoryRatio: c07Q(100), apiext.ResourceGPUMemory: c07QB(mem)}
	})
	n.wellPlanned = ngpu > 0 && nrdma > 0 && r.Pct(10)
	n.omitMinor0 = r.Pct(1)
	add(c07RDMA, nrdma, int32(r.Range(0, 1)), func() corev1.ResourceList { return corev1.ResourceList{apiext.ResourceRDMA: c07Q(100)} })
	add(c07FPGA, nfpga, 0, func() corev1.ResourceList { return corev1.ResourceList{apiext.ResourceFPGA: c07Q(100)} })
	return n
}

// buildPartitions sets up the partition table of a partitioned node. "label": the node carries gpu-model
// H100/H800/H20 and the table is koordinator's built-in one for these models (read from the exported
// variable, it is configuration data); "annotation": a table for the node's own GPU count is annotated on the
// Device object - singles, aligned pairs, aligned quads, all eight; in a third of them the pairs come in two
// allocation-score classes.
func (n *c07Node) buildPartitions(r *kit.Rand, ngpu int) {
	n.table = map[int][][]int{}
	n.mixedScore = map[int]bool{}
	n.obj.Labels = map[string]string{}
	if n.honor {
		n.obj.Labels[apiext.LabelGPUPartitionPolicy] = string(apiext.GPUPartitionPolicyHonor)
	}
	if n.part == "label" {
		n.obj.Labels[apiext.LabelGPUModel] = kit.Pick(r, []string{"H100", "H800", "H20"})
		if r.Bool() {
			n.obj.Labels[apiext.LabelGPUVendor] = apiext.GPUVendorNVIDIA
		}
		for size, groups := range GPUPartitionIndexOfNVIDIAHopper {
			scores := map[int]bool{}
			for _, g := range groups {
				for _, pt := range g.Partitions {
					n.table[size] = append(n.table[size], append([]int(nil), pt.Minors...))
					scores[pt.AllocationScore] = true
				}
			}
			n.mixedScore[size] = len(scores) > 1
		}
		return
	}
	table := apiext.GPUPartitionTable{}
	withBW := r.Bool()
	add := func(size int, minors []int, score int) {
		pt := apiext.GPUPartition{Minors: minors, GPULinkType: apiext.GPUNVLink, AllocationScore: score}
		if withBW {
			bw := resource.MustParse(kit.Pick(r, []string{"200Gi", "400Gi"}))
			pt.RingBusBandwidth = &bw
		}
		table[size] = append(table[size], pt)
		n.table[size] = append(n.table[size], minors)
	}
	for size := 1; size <= ngpu; size *= 2 {
		for first := 0; first+size <= ngpu; first += size {
			var ms []int
			for m := first; m < first+size; m++ {
				ms = append(ms, m)
			}
			score := 1
			if size == 2 {
				score = 2
			}
			add(size, ms, score)
		}
	}
	if r.Pct(33) {
		for first := 1; first+2 <= ngpu; first += 2 {
			add(2, []int{first, first + 1}, 1)
		}
		n.mixedScore[2] = true
	}
	b, _ := json.Marshal(table)
	n.tableJSON = string(b)
}

func (n *c07Node) devsOf(t schedulingv1alpha1.DeviceType) []*c07Dev {
	var out []*c07Dev
	for _, d := range n.devs {
		if d.typ == t {
			out = append(out, d)
		}
	}
	return out
}

func (d *c07Dev) reported(n *c07Node) bool { return d.present && !n.typeGone[d.typ] }

// buildCR renders the node model as the Device object koordlet would report.
func (n *c07Node) buildCR() *schedulingv1alpha1.Device {
	cr := &schedulingv1alpha1.Device{ObjectMeta: metav1.ObjectMeta{Name: n.name}}
	if n.part != "" && n.honor {
		cr.Labels = map[string]string{apiext.LabelGPUPartitionPolicy: string(apiext.GPUPartitionPolicyHonor)}
	}
	if n.tableJSON != "" {
		cr.Annotations = map[string]string{apiext.AnnotationGPUPartitions: n.tableJSON}
	}
	if n.wellPlanned {
		if cr.Labels == nil {
			cr.Labels = map[string]string{}
		}
		cr.Labels[apiext.LabelSecondaryDeviceWellPlanned] = "true"
	}
	for _, d := range n.devs {
		if !d.reported(n) {
			continue
		}
		minor := d.minor
		info := schedulingv1alpha1.DeviceInfo{
			Type: d.typ, UUID: fmt.Sprintf("%s-%s-%d", n.name, d.typ, d.minor), Minor: &minor, Health: d.health, Resources: d.res.DeepCopy(),
			Labels: map[string]string{"grp": d.label},
		}
		if n.omitMinor0 && d.minor == 0 {
			info.Minor = nil
		}
		if n.topo {
			info.Topology = &schedulingv1alpha1.DeviceTopology{SocketID: d.socket, NodeID: d.numa, PCIEID: d.pcie, BusID: fmt.Sprintf("0000:%02x:00.0", 16+int(d.minor))}
		}
		if d.vfs > 0 {
			g := schedulingv1alpha1.VirtualFunctionGroup{Labels: map[string]string{"type": "general"}}
			for j := 0; j < d.vfs; j++ {
				g.VFs = append(g.VFs, schedulingv1alpha1.VirtualFunction{Minor: int32(j), BusID: fmt.Sprintf("0000:%02x:00.%d", 16+int(d.minor), j+2)})
			}
			info.VFGroups = []schedulingv1alpha1.VirtualFunctionGroup{g}
		}
		cr.Spec.Devices = append(cr.Spec.Devices, info)
	}
	return cr
}

// inventory is the oracle's view of "the device's total": what the last inventory event said.
// A device that is unhealthy, not reported, or whose Device object was deleted has nothing.
func (n *c07Node) inventory() (map[c07Key]int64, map[c07DevKey]bool) {
	inv := map[c07Key]int64{}
	healthy := map[c07DevKey]bool{}
	if !n.crLive {
		return inv, healthy
	}
	for _, d := range n.devs {
		if !d.reported(n) || !d.health {
			continue
		}
		healthy[c07DevKey{d.typ, int(d.minor)}] = true
		for name, q := range d.res {
			if v := q.MilliValue(); v != 0 {
				inv[c07Key{d.typ, int(d.minor), name}] = v
			}
		}
	}
	return inv, healthy
}

func (n *c07Node) describe() string {
	if !n.crLive {
		return "(Device object deleted)"
	}
	var sb strings.Builder
	for _, d := range n.devs {
		if !d.reported(n) {
			fmt.Fprintf(&sb, "%s%d:absent ", d.typ, d.minor)
			continue
		}
		h := "H"
		if !d.health {
			h = "U"
		}
		fmt.Fprintf(&sb, "%s%d:%s:%s ", d.typ, d.minor, h, c07RL(d.res))
	}
	return sb.String()
}

func c07RL(rl corev1.ResourceList) string {
	names := make([]string, 0, len(rl))
	for k := range rl {
		names = append(names, string(k))
	}
	sort.Strings(names)
	var parts []string
	for _, k := range names {
		q := rl[corev1.ResourceName(k)]
		short := k
		if i := strings.LastIndex(k, "/"); i >= 0 {
			short = k[i+1:]
		}
		if q.MilliValue()%1000 != 0 {
			parts = append(parts, fmt.Sprintf("%s=%dm", short, q.MilliValue()))
		} else {
			parts = append(parts, fmt.Sprintf("%s=%d", short, q.Value()))
		}
	}
	return "{" + strings.Join(parts, ",") + "}"
}

func c07Allocs(a apiext.DeviceAllocations) string {
	if len(a) == 0 {
		return "none"
	}
	var parts []string
	for _, t := range c07Types {
		for _, x := range a[t] {
			s := fmt.Sprintf("%s%d%s", t, x.Minor, c07RL(x.Resources))
			if x.Extension != nil && len(x.Extension.VirtualFunctions) > 0 {
				s += "vf:" + x.Extension.VirtualFunctions[0].BusID
			}
			parts = append(parts, s)
		}
	}
	return strings.Join(parts, " ")
}

func c07CopyAllocs(a apiext.DeviceAllocations) apiext.DeviceAllocations {
	if a == nil {
		return nil
	}
	out := apiext.DeviceAllocations{}
	for t, as := range a {
		for _, x := range as {
			y := &apiext.DeviceAllocation{Minor: x.Minor, Resources: x.Resources.DeepCopy(), ID: x.ID}
			if x.Extension != nil {
				e := *x.Extension
				e.VirtualFunctions = append([]apiext.VirtualFunction(nil), x.Extension.VirtualFunctions...)
				y.Extension = &e
			}
			out[t] = append(out[t], y)
		}
	}
	return out
}

// mutate applies 1-3 random changes to what the node reports; returns a description.
func (n *c07Node) mutate(r *kit.Rand, held func(d *c07Dev) bool) string {
	var what []string
	for i, k := 0, r.Range(1, 3); i < k; i++ {
		if len(n.devs) == 0 {
			break
		}
		d := kit.Pick(r, n.devs)
		if bad := !d.present || !d.health || c07IsZero(d.res) || n.typeGone[d.typ]; bad && r.Pct(60) {
			// devices come back more often than they go, so that allocations stay possible
			d.present, d.health, n.typeGone[d.typ] = true, true, false
			if c07IsZero(d.res) {
				d.res = d.base.DeepCopy()
			}
			what = append(what, fmt.Sprintf("%s%d back: healthy %s", d.typ, d.minor, c07RL(d.res)))
			continue
		}
		switch r.Weighted(30, 12, 18, 20, 8, 12) {
		case 0:
			d.health = !d.health
			what = append(what, fmt.Sprintf("%s%d health=%v", d.typ, d.minor, d.health))
		case 1:
			if c07IsZero(d.res) {
				d.res = d.base.DeepCopy()
				what = append(what, fmt.Sprintf("%s%d resources restored", d.typ, d.minor))
			} else {
				z := corev1.ResourceList{}
				for name := range d.res {
					z[name] = c07Q(0)
				}
				if r.Bool() {
					z = corev1.ResourceList{}
				}
				d.res = z
				what = append(what, fmt.Sprintf("%s%d resources zero", d.typ, d.minor))
			}
		case 2:
			d.present = !d.present
			what = append(what, fmt.Sprintf("%s%d present=%v", d.typ, d.minor, d.present))
		case 3:
			// change totals (lower or raise). A GPU always reports gpu-core 100 and gpu-memory-ratio 100 (koordlet
			// hard-codes both), only its memory size can differ; generic devices may report any amount.
			nr := d.base.DeepCopy()
			if d.typ == c07GPU {
				if !n.memResize || held(d) {
					d.health = !d.health
					what = append(what, fmt.Sprintf("%s%d health=%v", d.typ, d.minor, d.health))
					break
				}
				nr[apiext.ResourceGPUMemory] = c07QB(kit.Pick(r, c07MemPool))
				d.base = nr.DeepCopy() // the new card; "restored"/"back" keep this size
			} else {
				for name := range nr {
					nr[name] = c07Q(int64(kit.Pick(r, []int{1, 50, 99, 100, 100})))
				}
			}
			d.res = nr
			what = append(what, fmt.Sprintf("%s%d totals=%s", d.typ, d.minor, c07RL(nr)))
		case 4:
			n.typeGone[d.typ] = !n.typeGone[d.typ]
			what = append(what, fmt.Sprintf("type %s gone=%v", d.typ, n.typeGone[d.typ]))
		case 5:
			what = append(what, "no change")
		}
	}
	return strings.Join(what, "; ")
}

func c07IsZero(rl corev1.ResourceList) bool {
	for _, q := range rl {
		if !q.IsZero() {
			return false
		}
	}
	return true
}

// ---------------------------------------------------------------------------------------------
// request shapes. The per-device request and the device count are derived here from the meaning of
// the request (N whole devices / one share of one device / N shares), not from koordinator's code.

type c07Want struct {
	count    int
	per      corev1.ResourceList
	atLeast  bool // the count is a lower bound (secondary type of a joint allocation)
	anyCount bool // the count depends on the inventory (ApplyForAll)
}

type c07Shape struct {
	partSpec *apiext.GPUPartitionSpec // the pod's gpu-partition-spec annotation, if any
	selector map[schedulingv1alpha1.DeviceType]string // hint Selector grp=<value>: only devices with that label may be used
	split    bool                                      // the requests are spread over two containers
	initC    bool                                      // an init container asks for (at most) the same
	memUnit  string // unit of GPU memory the request names: "bytes", "ratio" (whole GPUs name ratio 100), "" without GPU
	class    string
	requests corev1.ResourceList
	want     map[schedulingv1alpha1.DeviceType]*c07Want
	plain    bool
	hints    apiext.DeviceAllocateHints
	joint    *apiext.DeviceJointAllocate
}

var c07PctPool = []int{1, 10, 25, 33, 34, 49, 50, 50, 51, 66, 75, 99, 100}

func c07Pct(r *kit.Rand) int64 {
	if r.Pct(70) {
		return int64(kit.Pick(r, c07PctPool))
	}
	return int64(r.Range(1, 100))
}

func c07GPUShape(r *kit.Rand, n *c07Node, sh *c07Shape) {
	ngpu := len(n.devsOf(c07GPU))
	cnt := int64(kit.Pick(r, []int{1, 1, 1, 2, 2, 3, 4}))
	if r.Pct(15) && ngpu > 0 {
		cnt = int64(ngpu + r.Range(0, 1))
	}
	whole := corev1.ResourceList{apiext.ResourceGPUCore: c07Q(100), apiext.ResourceGPUMemoryRatio: c07Q(100)}
	w := &c07Want{count: 1}
	sh.want[c07GPU] = w
	sh.memUnit = "ratio"
	if n.partCase {
		// partitioned case (the node itself may or may not carry a table): whole-GPU requests of the partition
		// sizes, with or without the pod's own partition spec
		if r.Pct(50) {
			sh.partSpec = &apiext.GPUPartitionSpec{AllocatePolicy: kit.Pick(r, []apiext.GPUPartitionAllocatePolicy{apiext.GPUPartitionAllocatePolicyRestricted, apiext.GPUPartitionAllocatePolicyBestEffort, ""})}
			sh.class += "pspec-" + string(sh.partSpec.AllocatePolicy) + "-"
			if r.Pct(15) {
				bw := resource.MustParse(kit.Pick(r, []string{"100Gi", "200Gi", "400Gi"}))
				sh.partSpec.RingBusBandwidth = &bw
				sh.class += "bw-"
			}
		}
		if r.Pct(65) {
			cnt = int64(kit.Pick(r, []int{1, 2, 2, 2, 4, 4, 8, 3}))
			w.count, w.per = int(cnt), whole
			switch r.Intn(3) {
			case 0:
				sh.class += "nvidia-N"
				sh.requests[apiext.ResourceNvidiaGPU] = c07Q(cnt)
			case 1:
				sh.class += "koordgpu-100N"
				sh.requests[apiext.ResourceGPU] = c07Q(100 * cnt)
			default:
				sh.class += "core+ratio-100N"
				sh.requests[apiext.ResourceGPUCore] = c07Q(100 * cnt)
				sh.requests[apiext.ResourceGPUMemoryRatio] = c07Q(100 * cnt)
			}
			return
		}
	}
	if n.npu {
		// Only resources the cards expose are requested: a pod asking for gpu-core / nvidia.com/gpu never reaches this
		// plugin on such a node, because the node's allocatable (which koordlet derives from the same devices) has no
		// such resource and NodeResourcesFit rejects the node first. (The allocator itself does not check this: a
		// requested resource that a device does not expose is ignored by its candidate test.)
		switch r.Weighted(60, 20, 20) {
		case 0:
			// N whole Ascend cards: all 8 AI cores and the whole memory of each
			sh.class += "npu-8N"
			sh.requests[apiext.ResourceHuaweiNPUCore] = c07Q(8 * cnt)
			sh.requests[apiext.ResourceGPUMemoryRatio] = c07Q(100 * cnt)
			w.count, w.per = int(cnt), corev1.ResourceList{apiext.ResourceHuaweiNPUCore: c07Q(8), apiext.ResourceGPUMemoryRatio: c07Q(100)}
		case 1:
			sh.class += "ratio-100N"
			sh.requests[apiext.ResourceGPUMemoryRatio] = c07Q(100 * cnt)
			w.count, w.per = int(cnt), corev1.ResourceList{apiext.ResourceGPUMemoryRatio: c07Q(100)}
		default:
			mr := c07Pct(r)
			sh.class += "ratio-frac"
			sh.requests[apiext.ResourceGPUMemoryRatio] = c07Q(mr)
			w.per = corev1.ResourceList{apiext.ResourceGPUMemoryRatio: c07Q(mr)}
		}
		return
	}
	wb := 0
	if n.memBytes {
		wb = 14
	}
	switch k := r.Weighted(12, 6, 8, 4, 14, 16, 6, wb, wb*2/3, 10); k {
	case 0:
		// N whole cards by the vendor's extended resource name
		name := kit.Pick(r, []corev1.ResourceName{apiext.ResourceNvidiaGPU, apiext.ResourceNvidiaGPU, apiext.ResourceNvidiaGPU, apiext.ResourceAMDGPU, apiext.ResourceHygonDCU})
		sh.class += "nvidia-N"
		if name != apiext.ResourceNvidiaGPU {
			sh.class = strings.Replace(sh.class, "nvidia-N", "vendor-N", 1)
		}
		sh.requests[name] = c07Q(cnt)
		w.count, w.per = int(cnt), whole
	case 1:
		sh.class += "koordgpu-100N"
		sh.requests[apiext.ResourceGPU] = c07Q(100 * cnt)
		w.count, w.per = int(cnt), whole
	case 2:
		sh.class += "core+ratio-100N"
		sh.requests[apiext.ResourceGPUCore] = c07Q(100 * cnt)
		sh.requests[apiext.ResourceGPUMemoryRatio] = c07Q(100 * cnt)
		w.count, w.per = int(cnt), whole
	case 3:
		sh.class += "ratio-100N"
		sh.requests[apiext.ResourceGPUMemoryRatio] = c07Q(100 * cnt)
		w.count, w.per = int(cnt), corev1.ResourceList{apiext.ResourceGPUMemoryRatio: c07Q(100)}
	case 4:
		p := c07Pct(r)
		sh.class += "koordgpu-frac"
		sh.requests[apiext.ResourceGPU] = c07Q(p)
		w.per = corev1.ResourceList{apiext.ResourceGPUCore: c07Q(p), apiext.ResourceGPUMemoryRatio: c07Q(p)}
	case 5:
		cr, mr := c07Pct(r), c07Pct(r)
		sh.class += "core+ratio-frac"
		sh.requests[apiext.ResourceGPUCore] = c07Q(cr)
		sh.requests[apiext.ResourceGPUMemoryRatio] = c07Q(mr)
		w.per = corev1.ResourceList{apiext.ResourceGPUCore: c07Q(cr), apiext.ResourceGPUMemoryRatio: c07Q(mr)}
	case 6:
		mr := c07Pct(r)
		sh.class += "ratio-frac"
		sh.requests[apiext.ResourceGPUMemoryRatio] = c07Q(mr)
		w.per = corev1.ResourceList{apiext.ResourceGPUMemoryRatio: c07Q(mr)}
	case 7, 8:
		// memory in bytes, chosen around fractions of the GPU memory the node reports
		m := n.gpuMem
		b := kit.Pick(r, []int64{m / 16, m / 16, m / 8, m / 3, m / 2, m, m + 1, 1, m / 100, m/100 + 1, m / 7})
		if b <= 0 {
			b = 1
		}
		sh.requests[apiext.ResourceGPUMemory] = c07QB(b)
		w.per = corev1.ResourceList{apiext.ResourceGPUMemory: c07QB(b)}
		sh.class += "mem-bytes"
		sh.memUnit = "bytes"
		if k == 8 {
			cr := c07Pct(r)
			sh.class += "+core"
			sh.requests[apiext.ResourceGPUCore] = c07Q(cr)
			w.per[apiext.ResourceGPUCore] = c07Q(cr)
		}
	case 9:
		// N shares: gpu-shared = number of devices, the other amounts are totals split evenly
		nsh := int64(r.Range(2, 3))
		cr, mr := c07Pct(r), c07Pct(r)
		sh.class += "shared-N"
		sh.requests[apiext.ResourceGPUShared] = c07Q(nsh)
		sh.requests[apiext.ResourceGPUCore] = c07Q(cr * nsh)
		sh.requests[apiext.ResourceGPUMemoryRatio] = c07Q(mr * nsh)
		w.count = int(nsh)
		w.per = corev1.ResourceList{apiext.ResourceGPUCore: c07Q(cr), apiext.ResourceGPUMemoryRatio: c07Q(mr)}
	}
}

func c07DefaultShape(r *kit.Rand, t schedulingv1alpha1.DeviceType, name corev1.ResourceName, sh *c07Shape) {
	w := &c07Want{count: 1}
	sh.want[t] = w
	if r.Pct(35) {
		k := int64(r.Range(2, 3))
		sh.class += string(t) + "-100N"
		sh.requests[name] = c07Q(100 * k)
		w.count, w.per = int(k), corev1.ResourceList{name: c07Q(100)}
		return
	}
	if r.Pct(22) {
		// a share that is not a whole number of percent (devices shared in eighths, thousandths ...)
		m := int64(kit.Pick(r, []int{12500, 12500, 37500, 62500, 87500, 500, 99500, 33333, 1, 250}))
		q := *resource.NewMilliQuantity(m, resource.DecimalSI)
		sh.class += string(t) + "-milli"
		sh.requests[name] = q
		w.per = corev1.ResourceList{name: q}
		return
	}
	p := c07Pct(r)
	if r.Pct(25) {
		p = int64(kit.Pick(r, []int{13, 38, 63, 88, 1, 100})) // just above what is left beside shares in eighths
	}
	sh.class += string(t) + "-frac"
	sh.requests[name] = c07Q(p)
	w.per = corev1.ResourceList{name: c07Q(p)}
}

func c07GenShape(r *kit.Rand, n *c07Node) *c07Shape {
	sh := &c07Shape{requests: corev1.ResourceList{}, want: map[schedulingv1alpha1.DeviceType]*c07Want{}, plain: true}
	hasGPU, hasRDMA, hasFPGA := len(n.devsOf(c07GPU)) > 0, len(n.devsOf(c07RDMA)) > 0, len(n.devsOf(c07FPGA)) > 0
	hasGPUx := hasGPU && !n.npu // for the constrained shapes, which ask for whole NVIDIA-style GPUs
	// weights follow what the node has, with a little left for types it does not have
	wg, wr, wf, wc, wx := 2, 1, 1, 0, 0
	if hasGPU {
		wg = 60
	}
	if hasRDMA {
		wr = 14
	}
	if hasFPGA {
		wf = 8
	}
	if hasGPU && hasRDMA {
		wc = 8
	}
	if n.topo {
		wx = 14
	}
	switch r.Weighted(wg, wr, wf, wc, wx, 6) {
	case 5:
		// hint-constrained shapes that need no topology: device selector, requests-as-count, device-level exclusive
		sh.plain = false
		sh.hints = apiext.DeviceAllocateHints{}
		switch k := r.Intn(3); {
		case k == 0 && hasGPUx:
			c07GPUShape(r, n, sh)
			g := kit.Pick(r, []string{"a", "b"})
			sh.class = "x-selector-" + sh.class
			sh.selector = map[schedulingv1alpha1.DeviceType]string{c07GPU: g}
			sh.hints[c07GPU] = &apiext.DeviceHint{Selector: &metav1.LabelSelector{MatchLabels: map[string]string{"grp": g}}}
		case k <= 1 && hasRDMA:
			c07DefaultShape(r, c07RDMA, apiext.ResourceRDMA, sh)
			g := kit.Pick(r, []string{"a", "b"})
			sh.class = "x-selector-" + sh.class
			sh.selector = map[schedulingv1alpha1.DeviceType]string{c07RDMA: g}
			sh.hints[c07RDMA] = &apiext.DeviceHint{Selector: &metav1.LabelSelector{MatchLabels: map[string]string{"grp": g}}}
		case hasRDMA || hasFPGA:
			// the requested quantity is a number of devices; what is booked per device is the allocator's business,
			// at least one unit of each
			t, name := c07RDMA, corev1.ResourceName(apiext.ResourceRDMA)
			if !hasRDMA {
				t, name = c07FPGA, apiext.ResourceFPGA
			}
			k := int64(r.Range(1, 3))
			sh.class = "x-" + string(t) + "-ascount"
			sh.requests[name] = c07Q(k)
			sh.want[t] = &c07Want{count: int(k), per: corev1.ResourceList{name: c07Q(1)}}
			sh.hints[t] = &apiext.DeviceHint{AllocateStrategy: apiext.RequestsAsCountAllocateStrategy}
			if r.Bool() {
				sh.hints[t].ExclusivePolicy = apiext.DeviceLevelDeviceExclusivePolicy
				sh.class += "-exclusive"
			}
		default:
			sh.plain = true
			sh.hints = nil
			c07GPUShape(r, n, sh)
		}
		if len(sh.hints) == 0 {
			sh.hints = nil
		}
	case 0:
		c07GPUShape(r, n, sh)
	case 1:
		c07DefaultShape(r, c07RDMA, apiext.ResourceRDMA, sh)
	case 2:
		c07DefaultShape(r, c07FPGA, apiext.ResourceFPGA, sh)
	case 3:
		c07GPUShape(r, n, sh)
		sh.class += "+"
		c07DefaultShape(r, c07RDMA, apiext.ResourceRDMA, sh)
	case 4:
		// constrained shapes: only the success direction is asserted for these
		sh.plain = false
		sh.hints = apiext.DeviceAllocateHints{}
		cnt := int64(kit.Pick(r, []int{1, 2, 2, 3, 4}))
		whole := corev1.ResourceList{apiext.ResourceGPUCore: c07Q(100), apiext.ResourceGPUMemoryRatio: c07Q(100)}
		switch k := r.Weighted(30, 25, 30, 15); {
		case k == 0 && hasGPUx:
			scope := kit.Pick(r, []apiext.DeviceTopologyScope{apiext.DeviceTopologyScopePCIe, apiext.DeviceTopologyScopeNUMANode})
			sh.class = "x-gpu-scope-" + string(scope)
			sh.memUnit = "ratio"
			sh.requests[apiext.ResourceNvidiaGPU] = c07Q(cnt)
			sh.want[c07GPU] = &c07Want{count: int(cnt), per: whole}
			sh.hints[c07GPU] = &apiext.DeviceHint{RequiredTopologyScope: scope}
			if r.Pct(25) {
				// instead of a scope: only GPUs behind PCIe switches none of whose GPUs is in use
				sh.hints[c07GPU] = &apiext.DeviceHint{ExclusivePolicy: apiext.PCIExpressLevelDeviceExclusivePolicy}
				sh.class = "x-gpu-pcie-exclusive"
			}
		case k == 1 && hasRDMA && n.vf:
			sh.class = "x-"
			c07DefaultShape(r, c07RDMA, apiext.ResourceRDMA, sh)
			sh.class += "-vf"
			sh.hints[c07RDMA] = &apiext.DeviceHint{VFSelector: &metav1.LabelSelector{MatchLabels: map[string]string{"type": "general"}}}
		case k == 2 && hasGPUx && hasRDMA:
			sh.class = "x-joint"
			sh.memUnit = "ratio"
			sh.requests[apiext.ResourceNvidiaGPU] = c07Q(cnt)
			sh.want[c07GPU] = &c07Want{count: int(cnt), per: whole}
			p := c07Pct(r)
			sh.requests[apiext.ResourceRDMA] = c07Q(p)
			sh.want[c07RDMA] = &c07Want{count: 1, per: corev1.ResourceList{apiext.ResourceRDMA: c07Q(p)}, atLeast: true}
			sh.joint = &apiext.DeviceJointAllocate{DeviceTypes: []schedulingv1alpha1.DeviceType{c07GPU, c07RDMA}}
			if r.Pct(25) {
				// RDMA as the primary type: then the GPUs follow the NICs' PCIe switches and may be more than asked
				sh.joint.DeviceTypes = []schedulingv1alpha1.DeviceType{c07RDMA, c07GPU}
				sh.want[c07GPU].atLeast = true
				sh.class += "-rdma-first"
			}
			if r.Bool() {
				sh.joint.RequiredScope = apiext.SamePCIeDeviceJointAllocateScope
				sh.class += "-samepcie"
			}
			if n.vf && r.Bool() {
				sh.hints[c07RDMA] = &apiext.DeviceHint{VFSelector: &metav1.LabelSelector{MatchLabels: map[string]string{"type": "general"}}}
				sh.class += "-vf"
			}
		case hasRDMA:
			sh.class = "x-rdma-applyforall"
			p := c07Pct(r)
			sh.requests[apiext.ResourceRDMA] = c07Q(p)
			sh.want[c07RDMA] = &c07Want{count: 1, per: corev1.ResourceList{apiext.ResourceRDMA: c07Q(p)}, anyCount: true}
			sh.hints[c07RDMA] = &apiext.DeviceHint{AllocateStrategy: apiext.ApplyForAllDeviceAllocateStrategy}
		default:
			sh.plain = true
			sh.hints = nil
			c07GPUShape(r, n, sh)
		}
		if len(sh.hints) == 0 {
			sh.hints = nil
		}
	}
	sh.split, sh.initC = r.Pct(12), r.Pct(8)
	return sh
}

// ---------------------------------------------------------------------------------------------
// pods

const (
	c07Idle = iota
	c07Reserved
	c07Bound
	c07Terminated
)

var c07StateNames = []string{"idle", "reserved", "bound", "terminated"}

type c07Pod struct {
	ns         string
	name       string
	gen        int
	state      int
	node       *c07Node
	alloc      apiext.DeviceAllocations // the allocation the pod holds while reserved/bound (and keeps in its annotation afterwards)
	memUnit    string                   // unit of GPU memory its request named
	gpuPer     corev1.ResourceList      // its per-GPU request
	unassigned *corev1.Pod
	assigned   *corev1.Pod
	terminated *corev1.Pod
	cs         *framework.CycleState // set when the allocation went through Plugin.Reserve
	ghost      *corev1.Pod           // a terminated pod object the cache was shown but never held
}

func (p *c07Pod) live() bool { return p.state == c07Reserved || p.state == c07Bound }

func (p *c07Pod) key() string { return p.ns + "/" + p.name }

func c07NewPodObj(p *c07Pod, sh *c07Shape) *corev1.Pod {
	if p.ns == "" {
		p.ns = "default"
	}
	pod := &corev1.Pod{
		ObjectMeta: metav1.ObjectMeta{Namespace: p.ns, Name: p.name, UID: types.UID(fmt.Sprintf("%s-%s-g%d", p.ns, p.name, p.gen))},
		Spec: corev1.PodSpec{Containers: []corev1.Container{{Name: "main", Resources: corev1.ResourceRequirements{
			Requests: sh.requests.DeepCopy(), Limits: sh.requests.DeepCopy()}}}},
	}
	if sh.split {
		// the pod's request is the sum over its containers: move a part of every amount into a second container
		a, b := corev1.ResourceList{}, corev1.ResourceList{}
		names := make([]string, 0, len(sh.requests))
		for k := range sh.requests {
			names = append(names, string(k))
		}
		sort.Strings(names)
		for i, k := range names {
			q := sh.requests[corev1.ResourceName(k)]
			// whole amounts are split into whole amounts (extended resources such as nvidia.com/gpu must stay integral
			// per container); a fractional share is split exactly, in milli units
			v, unit := q.MilliValue(), int64(1000)
			if v%1000 != 0 {
				unit = 1
			}
			u := v / unit
			part := u / 2
			if i%2 == 1 {
				part = u - u/3
			}
			if u < 2 {
				part = 0
			}
			part *= unit
			mk := func(m int64) resource.Quantity {
				if m%1000 == 0 {
					return *resource.NewQuantity(m/1000, q.Format)
				}
				return *resource.NewMilliQuantity(m, q.Format)
			}
			if part > 0 {
				a[corev1.ResourceName(k)] = mk(part)
			}
			if v-part > 0 {
				b[corev1.ResourceName(k)] = mk(v - part)
			}
		}
		pod.Spec.Containers = []corev1.Container{{Name: "main", Resources: corev1.ResourceRequirements{Requests: a, Limits: a.DeepCopy()}},
			{Name: "side", Resources: corev1.ResourceRequirements{Requests: b, Limits: b.DeepCopy()}}}
	}
	if sh.initC {
		// an init container runs before the others: the pod's request is max(init, sum of the rest) = the sum
		pod.Spec.InitContainers = []corev1.Container{{Name: "init", Resources: corev1.ResourceRequirements{Requests: sh.requests.DeepCopy(), Limits: sh.requests.DeepCopy()}}}
	}
	if sh.hints != nil {
		_ = apiext.SetDeviceAllocateHints(pod, sh.hints)
	}
	if sh.joint != nil {
		_ = apiext.SetDeviceJointAllocate(pod, sh.joint)
	}
	if sh.partSpec != nil {
		b, _ := json.Marshal(sh.partSpec)
		if pod.Annotations == nil {
			pod.Annotations = map[string]string{}
		}
		pod.Annotations[apiext.AnnotationGPUPartitionSpec] = string(b)
	}
	return pod
}

// c07Assign produces the object the informer delivers after the bind: node name plus the annotation
// PreBind writes from the committed allocation.
func c07Assign(c *kit.Case, pod *corev1.Pod, node string, alloc apiext.DeviceAllocations) *corev1.Pod {
	out := pod.DeepCopy()
	out.Spec.NodeName = node
	if err := apiext.SetDeviceAllocations(out, alloc); err != nil {
		c.Harness("SetDeviceAllocations: %v", err)
	}
	return out
}

func c07Terminate(pod *corev1.Pod, r *kit.Rand) *corev1.Pod {
	out := pod.DeepCopy()
	out.Status.Phase = kit.Pick(r, []corev1.PodPhase{corev1.PodSucceeded, corev1.PodFailed})
	return out
}

// ---------------------------------------------------------------------------------------------
// observation

type c07Snap struct {
	total, free, used map[c07Key]int64
	sets              map[schedulingv1alpha1.DeviceType]map[string]map[int]corev1.ResourceList
}

func c07Flatten(m map[schedulingv1alpha1.DeviceType]deviceResources) map[c07Key]int64 {
	out := map[c07Key]int64{}
	for t, drs := range m {
		for minor, rl := range drs {
			for name, q := range rl {
				if v := q.MilliValue(); v != 0 {
					out[c07Key{t, minor, name}] = v
				}
			}
		}
	}
	return out
}

func c07Observe(c *kit.Case, cache *nodeDeviceCache, node string) *c07Snap {
	s, ok := cache.getNodeDeviceSummary(node)
	if !ok {
		c.Harness("node %s has no entry in the device cache", node)
	}
	return &c07Snap{total: c07Flatten(s.DeviceTotalDetail), free: c07Flatten(s.DeviceFreeDetail), used: c07Flatten(s.DeviceUsedDetail), sets: s.AllocateSet}
}

func c07Keys(ms ...map[c07Key]int64) []c07Key {
	seen := map[c07Key]struct{}{}
	for _, m := range ms {
		for k := range m {
			seen[k] = struct{}{}
		}
	}
	out := make([]c07Key, 0, len(seen))
	for k := range seen {
		out = append(out, k)
	}
	sort.Slice(out, func(i, j int) bool {
		if out[i].t != out[j].t {
			return out[i].t < out[j].t
		}
		if out[i].minor != out[j].minor {
			return out[i].minor < out[j].minor
		}
		return out[i].r < out[j].r
	})
	return out
}

func c07ResSig(r corev1.ResourceName) string {
	s := string(r)
	if i := strings.LastIndex(s, "/"); i >= 0 {
		s = s[i+1:]
	}
	return s
}

// c07LiveUsed sums, per device and resource, what the live pods on the node hold.
func c07LiveUsed(pods []*c07Pod, n *c07Node) map[c07Key]int64 {
	want := map[c07Key]int64{}
	for _, p := range pods {
		if !p.live() || p.node != n {
			continue
		}
		for t, as := range p.alloc {
			for _, a := range as {
				for name, q := range a.Resources {
					if v := q.MilliValue(); v != 0 {
						want[c07Key{t, int(a.Minor), name}] += v
					}
				}
			}
		}
	}
	return want
}

// c07MixedUnits decides whether "used grew above total" on the GPU-memory resource k.r of one GPU is the
// known defect "GPU memory is checked in the unit the request names (bytes or ratio) but booked in both, the
// other unit being derived by a rounding conversion" - and nothing else. All of the following must hold:
//  1. the operation granted a request on this node, and that request named the OTHER unit than the one
//     that is now over-committed (the unit the allocator checked cannot overflow through this defect);
//  2. the GPU is held by at least one allocation whose request named bytes and at least one whose request
//     named ratio (whole-GPU requests name ratio 100);
//  3. every allocation on the GPU is booked exactly as the defect's reading predicts: the amount of the unit
//     its request named equals its per-GPU request, the amount of the other unit lies between the
//     conversion rounded down and rounded up at the GPU's memory size (which is constant while held);
//  4. counting every allocation only in the unit its request named, the GPU is over-committed in neither
//     unit - the excess consists of derived amounts only, no grant took more than its own unit had.
// Anything else (a grant on a device without enough free, amounts that are not the request, a wrong
// conversion, usage that was never released ...) keeps the generic signature.
func c07MixedUnits(n *c07Node, pods []*c07Pod, k c07Key, grantUnit string) (bool, string) {
	if k.t != c07GPU || grantUnit == "" {
		return false, "no GPU grant in this operation"
	}
	overUnit := ""
	switch k.r {
	case apiext.ResourceGPUMemory:
		overUnit = "bytes"
	case apiext.ResourceGPUMemoryRatio:
		overUnit = "ratio"
	default:
		return false, "not a GPU memory resource"
	}
	if grantUnit == overUnit {
		return false, "the granted request named the over-committed unit itself"
	}
	inv, _ := n.inventory()
	memTotal := inv[c07Key{c07GPU, k.minor, apiext.ResourceGPUMemory}] / 1000
	ratioTotal := inv[c07Key{c07GPU, k.minor, apiext.ResourceGPUMemoryRatio}] / 1000
	if memTotal <= 0 {
		return false, "the GPU reports no memory"
	}
	var bytesNamed, ratioNamed int64
	nBytes, nRatio := 0, 0
	for _, p := range pods {
		if !p.live() || p.node != n {
			continue
		}
		for _, a := range p.alloc[c07GPU] {
			if int(a.Minor) != k.minor {
				continue
			}
			gotB, gotR := a.Resources[apiext.ResourceGPUMemory], a.Resources[apiext.ResourceGPUMemoryRatio]
			switch p.memUnit {
			case "bytes":
				want := p.gpuPer[apiext.ResourceGPUMemory]
				lo := want.Value() * 100 / memTotal
				hi := (want.Value()*100 + memTotal - 1) / memTotal
				if gotB.Cmp(want) != 0 || gotR.Value() < lo || gotR.Value() > hi {
					return false, fmt.Sprintf("pod %s is not booked as request %s with a rounded ratio: %s", p.name, c07RL(p.gpuPer), c07RL(a.Resources))
				}
				bytesNamed += want.Value()
				nBytes++
			case "ratio":
				want := p.gpuPer[apiext.ResourceGPUMemoryRatio]
				lo := want.Value() * memTotal / 100
				hi := (want.Value()*memTotal + 99) / 100
				if gotR.Cmp(want) != 0 || gotB.Value() < lo || gotB.Value() > hi {
					return false, fmt.Sprintf("pod %s is not booked as request %s with rounded bytes: %s", p.name, c07RL(p.gpuPer), c07RL(a.Resources))
				}
				ratioNamed += want.Value()
				nRatio++
			default:
				return false, "holder without a GPU memory unit"
			}
		}
	}
	if nBytes == 0 || nRatio == 0 {
		return false, "the holders' requests all named the same unit"
	}
	if bytesNamed > memTotal || ratioNamed > ratioTotal {
		return false, "over-committed even when every allocation counts only in the unit its request named"
	}
	return true, fmt.Sprintf("%d holder(s) asked in bytes (sum %d of %d), %d in ratio (sum %d of %d)", nBytes, bytesNamed, memTotal, nRatio, ratioNamed, ratioTotal)
}

// c07Check is the ledger oracle, evaluated for one node after every operation. grantUnit is the unit of GPU
// memory named by the request this operation granted on the node ("" if it granted none).
func c07Check(c *kit.Case, where string, n *c07Node, pods []*c07Pod, pre, post *c07Snap, grantUnit string) {
	inv, _ := n.inventory()
	for _, k := range c07Keys(inv, post.total) {
		if inv[k] != post.total[k] {
			c.Fail("C07/ledger/total-not-last-inventory", "%s: node %s %s minor %d %s: total is %d (milli), the last inventory says %d", where, n.name, k.t, k.minor, k.r, post.total[k], inv[k])
		}
	}
	want := c07LiveUsed(pods, n)
	for _, k := range c07Keys(want, post.used) {
		if want[k] != post.used[k] {
			c.Fail("C07/ledger/used-not-sum-of-live-pods", "%s: node %s %s minor %d %s: used is %d (milli), the live pods' allocations add up to %d", where, n.name, k.t, k.minor, k.r, post.used[k], want[k])
		}
	}
	for _, k := range c07Keys(post.total, post.used, post.free) {
		exp := post.total[k] - post.used[k]
		if exp < 0 {
			exp = 0
		}
		if post.free[k] != exp {
			c.Fail("C07/ledger/free-not-total-minus-used", "%s: node %s %s minor %d %s: free is %d (milli), total %d - used %d", where, n.name, k.t, k.minor, k.r, post.free[k], post.total[k], post.used[k])
		}
	}
	over := 0
	for _, k := range c07Keys(post.used) {
		if post.used[k] <= post.total[k] {
			continue
		}
		// unavoidable only if this operation did not add usage: the device was over-committed by an
		// inventory change (now or earlier) and usage has not grown since.
		if post.used[k] > pre.used[k] {
			msg := fmt.Sprintf("%s: node %s %s minor %d %s: used grew from %d to %d (milli) although the device's total is %d", where, n.name, k.t, k.minor, k.r, pre.used[k], post.used[k], post.total[k])
			if ok, why := c07MixedUnits(n, pods, k, grantUnit); ok {
				// the known unit-mix defect and nothing else: reported under its own signature, the case goes on
				c.Report("C07/ledger/used-exceeds-total/"+c07ResSig(k.r)+"/mixed-bytes-and-ratio-requests", "%s; %s", msg, why)
				c.Count("overcommit_attributed_to_mixed_memory_units", 1)
			} else {
				if k.r == apiext.ResourceGPUMemory || k.r == apiext.ResourceGPUMemoryRatio {
					msg += " (not the mixed-units defect: " + why + ")"
				}
				c.Fail("C07/ledger/used-exceeds-total/"+c07ResSig(k.r), "%s", msg)
			}
		}
		over++
	}
	if over > 0 {
		c.Count("states_overcommitted_without_growth_or_attributed", 1)
	}
	// the per-pod allocation set mirrors the live pods
	for _, t := range c07Types {
		wantPods := map[string]map[int]corev1.ResourceList{}
		for _, p := range pods {
			if !p.live() || p.node != n || len(p.alloc[t]) == 0 {
				continue
			}
			m := map[int]corev1.ResourceList{}
			for _, a := range p.alloc[t] {
				m[int(a.Minor)] = a.Resources
			}
			wantPods[p.key()] = m
		}
		got := post.sets[t]
		names := map[string]struct{}{}
		for k := range wantPods {
			names[k] = struct{}{}
		}
		for k, v := range got {
			if len(v) > 0 {
				names[k] = struct{}{}
			}
		}
		sorted := make([]string, 0, len(names))
		for k := range names {
			sorted = append(sorted, k)
		}
		sort.Strings(sorted)
		for _, k := range sorted {
			a := c07Flatten(map[schedulingv1alpha1.DeviceType]deviceResources{t: wantPods[k]})
			b := c07Flatten(map[schedulingv1alpha1.DeviceType]deviceResources{t: got[k]})
			for _, kk := range c07Keys(a, b) {
				if a[kk] != b[kk] {
					c.Fail("C07/ledger/allocate-set-not-live-pods", "%s: node %s %s: allocate set of pod %s has minor %d %s=%d (milli), the pod's live allocation has %d", where, n.name, t, k, kk.minor, kk.r, b[kk], a[kk])
				}
			}
		}
	}
	c.Count("ledger_checks", 1)
}

func c07PolOf(sh *c07Shape) apiext.GPUPartitionAllocatePolicy {
	if sh.partSpec == nil {
		return "node-honor"
	}
	if sh.partSpec.AllocatePolicy == "" {
		return "default"
	}
	return sh.partSpec.AllocatePolicy
}

func c07Success() *fwktype.Status { return nil }

func c07Restrict(m map[schedulingv1alpha1.DeviceType]sets.Int) string {
	if m == nil {
		return "all"
	}
	var parts []string
	for _, t := range c07Types {
		if st, ok := m[t]; ok {
			parts = append(parts, fmt.Sprintf("%s%v", t, st.List()))
		}
	}
	return strings.Join(parts, ",")
}

// c07OtherFit: every requested type other than GPU has enough fitting devices (both-units view is irrelevant there).
func c07OtherFit(types []schedulingv1alpha1.DeviceType, sh *c07Shape, n *c07Node, used map[c07Key]int64) bool {
	for _, t := range types {
		if t == c07GPU {
			continue
		}
		if e, _ := c07Eligible(n, t, sh.want[t].per, used, nil, false); e < sh.want[t].count {
			return false
		}
	}
	return true
}

// c07Eligible counts, independently of the allocator, the devices of one type that could serve one
// per-device request in the given state: reported healthy by the last inventory and with at least
// the requested amount of every requested resource free (total - sum of live allocations).
//
// bothUnits (used for the "refused only if no set exists" direction): GPU memory is one physical
// resource booked in two units (bytes and ratio of the device's memory). A request names one of
// them; with bothUnits a device counts only if the amount is also free in the other unit, converted
// upwards. So a refusal is never blamed on a device whose memory is exhausted in the unit the
// request did not name, whatever rounding the implementation uses for the conversion.
func c07Eligible(n *c07Node, t schedulingv1alpha1.DeviceType, per corev1.ResourceList, used map[c07Key]int64, required sets.Int, bothUnits bool) (int, map[int]bool) {
	inv, healthy := n.inventory()
	cnt := 0
	ok := map[int]bool{}
	for _, d := range n.devsOf(t) {
		m := int(d.minor)
		if !healthy[c07DevKey{t, m}] {
			continue
		}
		if required != nil && !required.Has(m) {
			continue
		}
		free := func(name corev1.ResourceName) int64 {
			k := c07Key{t, m, name}
			f := inv[k] - used[k]
			if f < 0 {
				f = 0
			}
			return f
		}
		fits := true
		for name, q := range per {
			if free(name) < q.MilliValue() {
				fits = false
				break
			}
		}
		if fits && bothUnits && t == c07GPU {
			memTotal := inv[c07Key{t, m, apiext.ResourceGPUMemory}] / 1000
			bq, hasBytes := per[apiext.ResourceGPUMemory]
			rq, hasRatio := per[apiext.ResourceGPUMemoryRatio]
			switch {
			case hasBytes && !hasRatio && memTotal > 0:
				ratio := (bq.Value()*100 + memTotal - 1) / memTotal
				fits = free(apiext.ResourceGPUMemoryRatio) >= ratio*1000
			case hasRatio && !hasBytes:
				bytes := (rq.Value()*memTotal + 99) / 100
				fits = free(apiext.ResourceGPUMemory) >= bytes*1000
			}
		}
		if fits {
			cnt++
			ok[m] = true
		}
	}
	return cnt, ok
}

// ---------------------------------------------------------------------------------------------

func TestVerifC07Ledger(t *testing.T) {
	pl := c07Plugin(t)
	ctx := context.TODO()
	kit.Run(t, kit.Config{Property: "C07", Unit: "ledger", Quick: 2000, Thorough: 100000,
		Rule: "histories of 60-200 operations over 3-8 pod names on 1-2 nodes of a real nodeDeviceCache: inventory events (Device add/update/delete: unhealthy, zero, missing minors/types, changed totals), allocate+commit through Plugin.PreFilter+Reserve or AutopilotAllocator.Allocate+updateCacheUsed, Unreserve / forget / terminated / delete, duplicate and stale pod events, ghost pods; GPU (whole, fractional by percent or bytes, N shares, multi), RDMA, FPGA, combined and constrained (topology scope, VF, joint, ApplyForAll, NUMA affinity) requests; 20 % of the cases with partitioned GPU nodes (built-in table by model label or table annotated on the Device, Honor or Prefer) and pods with/without a partition spec asking for 1/2/3/4/8 whole GPUs; plugin cycles PreFilter->Filter->(informer events)->Reserve incl. designated devices by scheduling hint; preemption dry runs (RemovePod/AddPod/Filter on a cloned cycle state); ledger oracle on every node after every operation; distinct = (request class, path, outcome, eligible-vs-wanted class, live pods, inventory class) and (event kind, pod state); non-trivial = case with a granted and a refused allocation and an inventory change while pods held devices"},
		func(c *kit.Case) {
			r := c.R
			cache := newNodeDeviceCache()
			pl := pl
			if r.Pct(30) {
				pl = c07PlMost
				c.Count("cases_with_most_allocated_scoring", 1)
			}
			pl.nodeDeviceCache = cache
			memBytes, memResize, partitioned := r.Pct(25), r.Pct(15), r.Pct(20)
			nodes := []*c07Node{c07GenNode(r, "n0", memBytes, memResize, partitioned)}
			if r.Pct(45) {
				nodes = append(nodes, c07GenNode(r, "n1", memBytes, memResize, partitioned))
				if r.Pct(22) {
					nodes = append(nodes, c07GenNode(r, "n2", memBytes, memResize, partitioned))
				}
			}
			if memBytes {
				c.Count("cases_with_gpu_memory_requests_in_bytes", 1)
			}
			if memResize {
				c.Count("cases_with_gpu_memory_size_changes", 1)
			}
			if partitioned {
				c.Count("cases_with_partitioned_nodes", 1)
				for _, n := range nodes {
					if n.part != "" {
						c.Count("partitioned_nodes_table_by_"+n.part, 1)
						if n.honor {
							c.Count("partitioned_nodes_with_honor_policy", 1)
						}
					}
				}
			}
			snaps := map[string]*c07Snap{}
			npods := r.Range(3, 8)
			pods := make([]*c07Pod, npods)
			for i := range pods {
				// two namespaces with the same pod names: the cache must keep default/p0 and team-b/p0 apart
				pods[i] = &c07Pod{ns: []string{"default", "team-b"}[i%2], name: fmt.Sprintf("p%d", i/2)}
			}
			var grantNode *c07Node // set by allocate for the check that follows it
			grantUnit := ""
			checkAll := func(where string) {
				for _, n := range nodes {
					post := c07Observe(c, cache, n.name)
					gu := ""
					if n == grantNode {
						gu = grantUnit
					}
					c07Check(c, where, n, pods, snaps[n.name], post, gu)
					snaps[n.name] = post
				}
				grantNode, grantUnit = nil, ""
			}
			heldDev := func(n *c07Node) func(d *c07Dev) bool {
				return func(d *c07Dev) bool {
					for _, p := range pods {
						if !p.live() || p.node != n {
							continue
						}
						for _, a := range p.alloc[d.typ] {
							if a.Minor == d.minor {
								return true
							}
						}
					}
					return false
				}
			}
			for _, n := range nodes {
				n.crLive = true
				n.lastCR = n.buildCR()
				cache.onDeviceAdd(n.lastCR.DeepCopy())
				c.Op("inventory %s add: topo=%v vf=%v partitions=%q honor=%v labels=%v table=%s %s", n.name, n.topo, n.vf, n.part, n.honor, n.obj.Labels, n.tableJSON, n.describe())
				snaps[n.name] = c07Observe(c, cache, n.name)
			}
			checkAll("initial inventory")
			if c.K < 2 {
				c.Sample(map[string]any{"gpu_memory_in_bytes": memBytes, "gpu_memory_resize": memResize, "nodes": len(nodes), "pods": npods, "inventory_n0": nodes[0].describe()})
			}

			granted, refused, invWhileHeld := false, false, false
			pick := func(pred func(p *c07Pod) bool) *c07Pod {
				var cand []*c07Pod
				for _, p := range pods {
					if pred(p) {
						cand = append(cand, p)
					}
				}
				if len(cand) == 0 {
					return nil
				}
				return kit.Pick(r, cand)
			}
			liveOn := func(n *c07Node) int {
				k := 0
				for _, p := range pods {
					if p.live() && p.node == n {
						k++
					}
				}
				return k
			}
			invClass := func(n *c07Node) string {
				if !n.crLive {
					return "deleted"
				}
				bad := 0
				for _, d := range n.devs {
					if !d.reported(n) || !d.health || c07IsZero(d.res) {
						bad++
					}
				}
				switch {
				case bad == 0:
					return "all-ok"
				case bad == len(n.devs):
					return "none-ok"
				}
				return "some-bad"
			}
			release := func(p *c07Pod) {
				p.state = c07Idle
				p.cs = nil
				p.gen++
				p.ghost = nil
			}

			// allocate runs one allocation attempt for an idle pod and evaluates the allocation oracle.
			var allocate func(p *c07Pod, restart bool, on *c07Node)
			// interleave: informer events that arrive between Filter and Reserve of one scheduling cycle (they are
			// handled on other goroutines than the scheduling cycle): an inventory update of the node, the delete
			// event of a bound pod of the node, or a bound pod the cache did not know yet (placed by another scheduler
			// instance; its allocation is what the real allocator computes against the current state).
			interleave := func(n *c07Node, cyclePod *c07Pod) string {
				switch r.Weighted(40, 30, 30) {
				case 0:
					if !n.crLive {
						return ""
					}
					what := n.mutate(r, heldDev(n))
					cr := n.buildCR()
					cache.onDeviceUpdate(n.lastCR.DeepCopy(), cr.DeepCopy())
					n.lastCR = cr
					c.Op("  interleaved: inventory %s update (%s): %s", n.name, what, n.describe())
					checkAll("interleaved inventory update")
					return "inventory"
				case 1:
					q := pick(func(q *c07Pod) bool { return q.state == c07Bound && q.node == n })
					if q == nil {
						return ""
					}
					c.Op("  interleaved: delete event %s on %s", q.key(), n.name)
					cache.onPodDelete(q.assigned.DeepCopy())
					release(q)
					checkAll("interleaved delete event")
					return "delete"
				default:
					q := pick(func(q *c07Pod) bool { return q != cyclePod && q.state == c07Idle && q.ghost == nil })
					if q == nil {
						return ""
					}
					c.Op("  interleaved: another scheduler's pod:")
					allocate(q, true, n)
					checkAll("interleaved pod add")
					return "pod-add"
				}
			}
			// numaAffinity draws a NUMA affinity (one node, sometimes two) and narrows the allowed devices to those on it
			numaAffinity := func(n *c07Node, sh *c07Shape, restrict *map[schedulingv1alpha1.DeviceType]sets.Int) bitmask.BitMask {
				numas := []int{r.Intn(n.numaCount)}
				if r.Pct(30) {
					if o := r.Intn(n.numaCount); o != numas[0] {
						numas = append(numas, o)
					}
				}
				mask, _ := bitmask.NewBitMask(numas...)
				bySelector := *restrict
				out := map[schedulingv1alpha1.DeviceType]sets.Int{}
				for t := range sh.want {
					allowed := sets.NewInt()
					for _, d := range n.devsOf(t) {
						for _, x := range numas {
							if int(d.numa) == x {
								allowed.Insert(int(d.minor))
							}
						}
					}
					if prev, ok := bySelector[t]; ok {
						allowed = allowed.Intersection(prev)
					}
					out[t] = allowed
				}
				*restrict = out
				c.Count("allocations_with_numa_affinity", 1)
				if n.numaPerSocket > 1 {
					c.Count("allocations_with_numa_affinity_where_numa_id_differs_from_socket_id", 1)
				}
				return mask
			}
			allocate = func(p *c07Pod, restart bool, on *c07Node) {
				n := on
				if n == nil {
					n = kit.Pick(r, nodes)
				}
				sh := c07GenShape(r, n)
				p.unassigned = c07NewPodObj(p, sh)
				usedBefore := c07LiveUsed(pods, n)
				_, healthy := n.inventory()
				viaPlugin := !restart && r.Pct(55)
				var required, preferred map[schedulingv1alpha1.DeviceType]sets.Int
				var reqSet sets.Int
				path := "direct"
				var allocs apiext.DeviceAllocations
				var rawGrant apiext.DeviceAllocations // what the allocator returned when the step after it (fillGPUTotalMem) refused
				var restrict map[schedulingv1alpha1.DeviceType]sets.Int // devices the request may use (nil entry = all of the type)
				if sh.selector != nil {
					restrict = map[schedulingv1alpha1.DeviceType]sets.Int{}
					for t, g := range sh.selector {
						allowed := sets.NewInt()
						for _, d := range n.devsOf(t) {
							if d.label == g {
								allowed.Insert(int(d.minor))
							}
						}
						restrict[t] = allowed
					}
				}
				var okAlloc bool
				var reason string
				var designated apiext.DeviceAllocations
				if viaPlugin {
					path = "reserve"
					cs := framework.NewCycleState()
					if sh.hints == nil && sh.joint == nil && sh.partSpec == nil && r.Pct(18) {
						// designated devices: an upstream decision (scheduling hint carrying the DeviceShare extension) pins the
						// pod to the devices recorded in its device-allocated annotation. The designation is what the real
						// allocator computes against the current state; the cycle has to confirm it.
						if st0, stp := preparePod(p.unassigned, nil, nil); stp.IsSuccess() && !st0.skip {
							nd := cache.getNodeDevice(n.name, false)
							al := &AutopilotAllocator{state: st0, nodeDevice: nd, node: n.obj, pod: p.unassigned}
							nd.lock.RLock()
							trial, stt := al.Allocate(nil, nil, nil, nil)
							if stt.IsSuccess() && fillGPUTotalMem(trial, nd) == nil {
								if err := apiext.SetDeviceAllocations(p.unassigned, c07CopyAllocs(trial)); err != nil {
									c.Harness("SetDeviceAllocations: %v", err)
								}
								hinter.SetSchedulingHintState(cs, &hinter.SchedulingHintStateData{Extensions: map[string]interface{}{Name: nil}})
								designated = c07CopyAllocs(trial)
								sh.plain = false
								sh.class += "@designated"
								path = "reserve-designated"
								c.Op("  designated by scheduling hint: %s", c07Allocs(trial))
							}
							nd.lock.RUnlock()
						}
					}
					if designated == nil && n.topo && sh.joint == nil && r.Pct(10) {
						// the pod is scheduled with a NUMA topology policy: the topology manager left its affinity for the node
						// in the cycle state; Reserve may only use devices of these NUMA nodes
						topologymanager.InitStore(cs)
						topologymanager.GetStore(cs).SetAffinity(n.name, topologymanager.NUMATopologyHint{NUMANodeAffinity: numaAffinity(n, sh, &restrict)})
						sh.plain = false
						sh.class += "@numa"
						path += "-numa"
					}
					if _, st := pl.PreFilter(ctx, cs, p.unassigned, nil); !st.IsSuccess() {
						c.Harness("PreFilter rejected the generated request %s %s: %v", sh.class, c07RL(sh.requests), st.Message())
					}
					st := c07Success()
					filtered := false
					if r.Pct(75) {
						nodeInfo, err := pl.handle.SnapshotSharedLister().NodeInfos().Get(n.name)
						if err != nil {
							c.Harness("snapshot has no node %s: %v", n.name, err)
						}
						st = pl.Filter(ctx, cs, p.unassigned, nodeInfo)
						filtered = true
						c.Count("cycles_with_filter", 1)
						if !st.IsSuccess() {
							path += "-filter"
						}
					}
					if st.IsSuccess() {
						if filtered && r.Pct(35) {
							// the cycle goes on with Reserve after other goroutines handled informer events
							happened := ""
							for i, k := 0, r.Range(1, 2); i < k; i++ {
								happened += interleave(n, p)
							}
							if happened != "" {
								c.Count("cycles_with_events_between_filter_and_reserve", 1)
								if strings.HasSuffix(path, "designated") {
									c.Count("designated_cycles_with_events_between_filter_and_reserve", 1)
								}
								path += "-interleaved"
							}
							usedBefore = c07LiveUsed(pods, n)
							_, healthy = n.inventory()
						}
						schedulingphase.RecordPhase(cs, schedulingphase.Reserve) // as the framework does before calling the Reserve plugins
						st = pl.Reserve(ctx, cs, p.unassigned, n.name)
					}
					okAlloc, reason = st.IsSuccess(), st.Message()
					if okAlloc {
						state, st2 := getPreFilterState(cs)
						if !st2.IsSuccess() {
							c.Harness("no prefilter state after Reserve")
						}
						allocs = c07CopyAllocs(state.allocationResult)
						p.cs = cs
					}
				} else {
					state, st := preparePod(p.unassigned, nil, nil)
					if !st.IsSuccess() {
						c.Harness("preparePod rejected the generated request %s %s: %v", sh.class, c07RL(sh.requests), st.Message())
					}
					if state.skip {
						c.Harness("preparePod sees no device request in %s %s", sh.class, c07RL(sh.requests))
					}
					nd := cache.getNodeDevice(n.name, false)
					if sh.plain && len(sh.want) == 1 && sh.want[c07GPU] == nil && r.Pct(35) {
						// restrict a RDMA/FPGA request to a set of minors the caller allows (as the reservation path does)
						for t := range sh.want {
							reqSet = sets.NewInt()
							for _, d := range n.devsOf(t) {
								if r.Bool() {
									reqSet.Insert(int(d.minor))
								}
							}
							if reqSet.Len() > 0 {
								required = map[schedulingv1alpha1.DeviceType]sets.Int{t: reqSet}
								restrict = required
								path = "direct-required"
							} else {
								reqSet = nil
							}
						}
					}
					if r.Pct(20) {
						preferred = map[schedulingv1alpha1.DeviceType]sets.Int{}
						for t := range sh.want {
							s := sets.NewInt()
							for _, d := range n.devsOf(t) {
								if r.Bool() {
									s.Insert(int(d.minor))
								}
							}
							preferred[t] = s
						}
					}
					var preemptible map[schedulingv1alpha1.DeviceType]deviceResources
					if r.Bool() {
						preemptible = map[schedulingv1alpha1.DeviceType]deviceResources{} // what Plugin.allocate passes when nothing is preemptible
					}
					al := &AutopilotAllocator{state: state, nodeDevice: nd, node: n.obj, pod: p.unassigned, phaseBeingExecuted: schedulingphase.Reserve}
					if r.Bool() {
						al.scorer = pl.scorer
					}
					if required == nil && n.topo && sh.want[c07GPU] != nil && sh.joint == nil && r.Pct(12) {
						// NUMA affinity of the scheduling cycle (what Plugin.allocate takes from the topology manager's
						// store): only devices on the chosen NUMA node may be used, for every requested type
						al.numaNodes = numaAffinity(n, sh, &restrict)
						sh.plain = false
						sh.class += "@numa"
						path = "direct-numa"
					}
					nd.lock.RLock()
					res, st := al.Allocate(required, preferred, nil, preemptible)
					okAlloc, reason = st.IsSuccess(), st.Message()
					if okAlloc {
						raw := c07CopyAllocs(res)
						if err := fillGPUTotalMem(res, nd); err != nil {
							okAlloc, reason, rawGrant = false, "allocator granted "+c07Allocs(raw)+", then: "+err.Error(), raw
						}
					}
					nd.lock.RUnlock()
					if okAlloc {
						allocs = c07CopyAllocs(res)
						if restart {
							// the informer delivers the already-bound pod; the cache does not hold it yet
							p.assigned = c07Assign(c, p.unassigned, n.name, allocs)
							cache.onPodAdd(p.assigned.DeepCopy())
							path = "restart-add"
						} else {
							nd.lock.Lock()
							nd.updateCacheUsed(res, p.unassigned, true)
							nd.lock.Unlock()
						}
					}
				}
				// ---- allocation oracle
				eligClass := ""
				allFit := true
				typesSorted := make([]schedulingv1alpha1.DeviceType, 0, len(sh.want))
				for _, t := range c07Types {
					if sh.want[t] != nil {
						typesSorted = append(typesSorted, t)
					}
				}
				eligOK := map[schedulingv1alpha1.DeviceType]map[int]bool{}
				allFitBothUnits := true
				for _, t := range typesSorted {
					w := sh.want[t]
					var rs sets.Int
					if restrict != nil {
						rs = restrict[t]
					}
					e, okm := c07Eligible(n, t, w.per, usedBefore, rs, false)
					if e2, _ := c07Eligible(n, t, w.per, usedBefore, rs, true); e2 < w.count {
						allFitBothUnits = false
					}
					eligOK[t] = okm
					switch {
					case e < w.count:
						allFit = false
						if e == w.count-1 {
							eligClass += "short-by-1,"
						} else {
							eligClass += "short,"
						}
					case e == w.count:
						eligClass += "exact,"
					default:
						eligClass += "spare,"
					}
				}
				// ---- partitioned nodes. honoring: the pod carries a partition spec or the node says Honor - then whole
				// GPUs may only come as a partition of the node's table. freePartition: the table has a partition of the
				// wanted size whose GPUs are all healthy, allowed and completely unused in the pre-state.
				wGPU := sh.want[c07GPU]
				honoring := wGPU != nil && (sh.partSpec != nil || (n.part != "" && n.honor))
				freePartition, brokenWithSibling := false, false
				if wGPU != nil && n.part != "" {
					usedMinor := map[int]bool{}
					for k := range usedBefore {
						if k.t == c07GPU {
							usedMinor[k.minor] = true
						}
					}
					for _, minors := range n.table[wGPU.count] {
						all, good, bad := true, 0, 0
						for _, m := range minors {
							if healthy[c07DevKey{c07GPU, m}] && eligOK[c07GPU][m] {
								good++
							} else if !healthy[c07DevKey{c07GPU, m}] {
								bad++
							}
							if !eligOK[c07GPU][m] || usedMinor[m] {
								all = false
							}
						}
						if all {
							freePartition = true
						}
						if good > 0 && bad > 0 {
							brokenWithSibling = true
						}
					}
					c.Count("allocate_on_partitioned_node", 1)
					if brokenWithSibling {
						c.Count("allocate_with_partition_of_unhealthy_member_and_healthy_sibling", 1)
					}
				}
				partClass := ""
				if n.part != "" && wGPU != nil {
					partClass = fmt.Sprintf("part=%s honor=%v free-partition=%v broken=%v", n.part, honoring, freePartition, brokenWithSibling)
				}
				c.Op("allocate %s(gen %d) on %s via %s: %s %s hints=%v joint=%v allowed=%s %s -> ok=%v %s [%s] eligible=%s", p.key(), p.gen, n.name, path, sh.class, c07RL(sh.requests),
					sh.hints != nil, sh.joint != nil, c07Restrict(restrict), partClass, okAlloc, c07Allocs(allocs), reason, eligClass)
				c.Seen("alloc", sh.class, path, okAlloc, eligClass, liveOn(n), invClass(n), partClass)
				countPath := path
				if viaPlugin {
					countPath = "reserve" // all cycles through the plugin; the variants are counted separately
					if path != "reserve" {
						c.Count("cycle_variant_"+strings.TrimPrefix(path, "reserve-"), 1)
					}
				}
				c.Count("allocate_"+countPath, 1)
				if strings.Contains(sh.class, "-milli") {
					c.Count("allocations_asking_for_fractional_amounts", 1)
				}

				// checkGrant: what a successful allocation must look like (success direction of the statement)
				checkGrant := func(allocs apiext.DeviceAllocations) {
					for t := range allocs {
						if sh.want[t] == nil && len(allocs[t]) > 0 {
							c.Fail("C07/allocate/unrequested-type", "request %s got devices of type %s it did not ask for: %s", sh.class, t, c07Allocs(allocs))
						}
					}
					for _, t := range typesSorted {
						w := sh.want[t]
						got := allocs[t]
						switch {
						case w.anyCount:
							if len(got) == 0 {
								c.Fail("C07/allocate/wrong-count", "request %s succeeded without any %s device", sh.class, t)
							}
						case w.atLeast:
							if len(got) < w.count {
								c.Fail("C07/allocate/wrong-count", "request %s wants at least %d %s devices, got %d: %s", sh.class, w.count, t, len(got), c07Allocs(allocs))
							}
						default:
							if len(got) != w.count {
								c.Fail("C07/allocate/wrong-count", "request %s %s wants %d %s device(s), the successful allocation has %d: %s", sh.class, c07RL(sh.requests), w.count, t, len(got), c07Allocs(allocs))
							}
						}
						seen := map[int32]bool{}
						for _, a := range got {
							if seen[a.Minor] {
								c.Fail("C07/allocate/duplicate-minor", "request %s: %s minor %d appears twice in %s", sh.class, t, a.Minor, c07Allocs(allocs))
							}
							seen[a.Minor] = true
							if !healthy[c07DevKey{t, int(a.Minor)}] {
								c.Fail("C07/allocate/unhealthy-device", "request %s was given %s minor %d, which the last inventory does not report healthy (%s); inventory %s", sh.class, t, a.Minor, c07Allocs(allocs), n.describe())
							}
							if restrict != nil && restrict[t] != nil && !restrict[t].Has(int(a.Minor)) {
								c.Fail("C07/allocate/outside-allowed-devices", "request %s restricted to %s was given %s minor %d (%s)", sh.class, c07Restrict(restrict), t, a.Minor, c07Allocs(allocs))
							}
							if !eligOK[t][int(a.Minor)] {
								c.Fail("C07/allocate/not-enough-free", "request %s %s (per device %s) was given %s minor %d, which did not have that much free before the allocation; inventory %s", sh.class, c07RL(sh.requests), c07RL(w.per), t, a.Minor, n.describe())
							}
							for name, q := range w.per {
								g := a.Resources[name]
								if g.Cmp(q) < 0 {
									c.Fail("C07/allocate/allocation-below-request", "request %s: allocation on %s minor %d records %s=%s, the per-device request is %s", sh.class, t, a.Minor, name, g.String(), q.String())
								}
							}
						}
					}
				}
				if !okAlloc {
					refused = true
					c.Count("allocate_refused", 1)
					if designated != nil {
						c.Count("designated_cycles_refused", 1)
					}
					if n.part != "" && wGPU != nil {
						c.Count("refused_on_partitioned_node", 1)
					}
					if rawGrant != nil {
						// the allocator itself had granted; its result must satisfy the statement all the same
						c.Count("refused_after_allocator_grant", 1)
						checkGrant(rawGrant)
						return
					}
					switch {
					case honoring:
						// only the narrow converse: a request for N whole-or-less GPUs must not be refused while a table
						// partition of size N is entirely healthy, allowed and unused (then the request fits whether it is
						// served partition-wise or device-wise), the partitions of that size form one score class (so
						// Restricted and BestEffort look at the same candidates) and every other requested type fits
						c.Count("refusals_with_partitions_honored", 1)
						if !freePartition && !n.mixedScore[wGPU.count] && restrict == nil && sh.hints == nil && sh.joint == nil && designated == nil {
							c.Count("refusals_checked_against_free_partitions", 1)
						}
						if freePartition && !n.mixedScore[wGPU.count] && restrict == nil && sh.hints == nil && sh.joint == nil && designated == nil && (sh.partSpec == nil || sh.partSpec.RingBusBandwidth == nil) && c07OtherFit(typesSorted, sh, n, usedBefore) {
							c.Fail("C07/allocate/refused-although-free-partition-exists", "node %s: request %s %s refused (%s) although the node's partition table has a partition of %d GPU(s) that are all healthy and unused; inventory %s", n.name, sh.class, c07RL(sh.requests), reason, wGPU.count, n.describe())
						}
						if !freePartition && allFit {
							c.Count("converse_misses_partition_honored_refused_with_enough_single_devices", 1)
						}
						if freePartition {
							// refused with a free partition, yet outside the asserted narrow converse: say why (evidence only)
							switch {
							case n.mixedScore[wGPU.count]:
								c.Count("converse_misses_free_partition_refused_mixed_score_table_policy_"+string(c07PolOf(sh)), 1)
							case restrict != nil || sh.hints != nil || sh.joint != nil || designated != nil:
								c.Count("converse_misses_free_partition_refused_constrained_request", 1)
							default:
								c.Count("converse_misses_free_partition_refused_other_type_short", 1)
							}
						}
					case sh.plain:
						c.Count("refusals_checked_against_eligible_count", 1)
						if allFit && !allFitBothUnits {
							c.Count("converse_misses_refused_gpu_memory_short_in_the_other_unit", 1)
						}
						if allFitBothUnits {
							c.Fail("C07/allocate/refused-although-devices-fit", "node %s: request %s %s refused (%s) although for every requested type enough healthy devices have the per-device request free (%s); inventory %s", n.name, sh.class, c07RL(sh.requests), reason, eligClass, n.describe())
						}
						if strings.Contains(eligClass, "short-by-1") {
							c.Count("refused_one_device_short", 1)
						}
					default:
						c.Count("refused_constrained_shape", 1)
						if allFit {
							c.Count("converse_misses_constrained_refused_with_enough_plain_eligible", 1)
						}
					}
					return
				}
				granted = true
				c.Count("allocate_granted", 1)
				if n.part != "" && wGPU != nil {
					c.Count("granted_on_partitioned_node", 1)
					if honoring && wGPU.count >= 2 {
						c.Count("granted_multi_gpu_with_partitions_honored", 1)
					}
				}
				if !sh.plain || honoring {
					c.Count("granted_constrained_shape", 1)
				}
				if strings.Contains(eligClass, "exact") {
					c.Count("granted_with_exactly_enough_devices", 1)
				}
				checkGrant(allocs)
				if designated != nil {
					same := true
					for t, as := range allocs {
						for _, a := range as {
							found := false
							for _, d := range designated[t] {
								if d.Minor == a.Minor {
									found = true
								}
							}
							if !found {
								same = false
							}
						}
					}
					if same {
						c.Count("designated_cycles_granted_on_the_designated_devices", 1)
					} else {
						c.Count("designated_cycles_granted_elsewhere", 1)
					}
				}
				p.alloc = allocs
				p.memUnit, p.gpuPer = sh.memUnit, nil
				if w := sh.want[c07GPU]; w != nil {
					p.gpuPer = w.per
				}
				grantNode, grantUnit = n, sh.memUnit
				p.node = n
				if restart {
					p.state = c07Bound
				} else {
					p.state = c07Reserved
					p.assigned = nil
				}
				p.terminated = nil
			}

			nops := r.Range(60, 200)
			if r.Pct(3) {
				nops = r.Range(400, 600)
				c.Count("long_histories", 1)
			}
			for op := 0; op < nops; op++ {
				kind := r.Weighted(30, 9, 12, 17, 22, 10, 6)
				where := ""
				switch kind {
				case 0: // allocate + commit
					p := pick(func(p *c07Pod) bool { return p.state == c07Idle && p.ghost == nil })
					if p == nil {
						// no free pod name left: end one pod the short way so that the history goes on
						p = pick(func(p *c07Pod) bool { return p.state != c07Idle })
						if p == nil {
							continue
						}
						if p.live() {
							c.Op("forget %s on %s (to free a pod name)", p.key(), p.node.name)
							obj := p.assigned
							if obj == nil {
								obj = c07Assign(c, p.unassigned, p.node.name, p.alloc)
							}
							cache.deletePod(obj.DeepCopy())
						} else {
							c.Op("delete event %s on %s (pod was terminated; to free a pod name)", p.key(), p.node.name)
							cache.onPodDelete(p.terminated.DeepCopy())
						}
						release(p)
						checkAll("free a pod name")
					}
					allocate(p, r.Pct(8), nil)
					c.Count("op_allocate", 1)
					where = "allocate " + p.key()
				case 1: // release before the bind: Unreserve (or forget)
					p := pick(func(p *c07Pod) bool { return p.state == c07Reserved })
					if p == nil {
						continue
					}
					if p.cs != nil && r.Pct(60) {
						// the binding cycle: PreBind writes the allocation into the pod. It reads the node's Device object from
						// the Device lister; if the object was deleted after Reserve (its delete event reached the cache:
						// inventory invalid), PreBind fails and the framework calls Unreserve. Otherwise the pod goes on to be bound.
						n := p.node
						if n.crLive && r.Pct(35) {
							cache.onDeviceDelete(n.lastCR.DeepCopy())
							n.crLive = false
							c.Op("inventory %s: Device object deleted (between Reserve and PreBind of %s)", n.name, p.key())
							checkAll("device delete before PreBind")
						}
						idx := pl.handle.KoordinatorSharedInformerFactory().Scheduling().V1alpha1().Devices().Informer().GetIndexer()
						if n.crLive {
							_ = idx.Add(n.lastCR.DeepCopy())
						}
						obj := p.unassigned.DeepCopy()
						st := pl.PreBind(ctx, p.cs, obj, n.name)
						if n.crLive {
							_ = idx.Delete(n.lastCR)
						}
						c.Count("op_prebind", 1)
						if st.IsSuccess() {
							c.Op("prebind %s on %s -> ok", p.key(), n.name)
							c.Count("prebind_ok", 1)
							c.Seen("prebind", true, invClass(n))
							checkAll("prebind " + p.key())
							continue
						}
						c.Count("prebind_failed_device_object_missing", 1)
						pl.Unreserve(ctx, p.cs, p.unassigned, n.name)
						c.Op("prebind %s on %s failed (%s); unreserve (Plugin.Unreserve)", p.key(), n.name, st.Message())
						c.Seen("prebind", false, invClass(n))
					} else if p.cs != nil {
						pl.Unreserve(ctx, p.cs, p.unassigned, p.node.name)
						c.Op("unreserve %s on %s (Plugin.Unreserve)", p.key(), p.node.name)
					} else if r.Bool() {
						nd := cache.getNodeDevice(p.node.name, false)
						nd.lock.Lock()
						nd.updateCacheUsed(c07CopyAllocs(p.alloc), p.unassigned, false)
						nd.lock.Unlock()
						c.Op("unreserve %s on %s (updateCacheUsed remove)", p.key(), p.node.name)
					} else {
						cache.deletePod(c07Assign(c, p.unassigned, p.node.name, p.alloc))
						c.Op("forget %s on %s (deletePod of the assumed pod)", p.key(), p.node.name)
					}
					c.Seen("release", "unreserve", liveOn(p.node), invClass(p.node))
					release(p)
					c.Count("op_unreserve", 1)
					where = "unreserve " + p.key()
				case 2: // bind event: unassigned -> assigned with the annotation
					p := pick(func(p *c07Pod) bool { return p.state == c07Reserved })
					if p == nil {
						continue
					}
					p.assigned = c07Assign(c, p.unassigned, p.node.name, p.alloc)
					cache.onPodUpdate(p.unassigned.DeepCopy(), p.assigned.DeepCopy())
					p.state = c07Bound
					c.Op("bind event %s on %s (update unassigned -> assigned, duplicate add of the reserved allocation)", p.key(), p.node.name)
					c.Seen("event", "bind", invClass(p.node))
					c.Count("op_bind_event", 1)
					c.Count("duplicate_or_stale_events", 1)
					where = "bind event " + p.key()
				case 3: // terminated / delete events
					p := pick(func(p *c07Pod) bool { return p.state == c07Bound || p.state == c07Terminated })
					if p == nil {
						continue
					}
					if p.state == c07Bound && r.Pct(55) {
						p.terminated = c07Terminate(p.assigned, r)
						cache.onPodUpdate(p.assigned.DeepCopy(), p.terminated.DeepCopy())
						p.state = c07Terminated
						c.Op("terminated event %s on %s (%s)", p.key(), p.node.name, p.terminated.Status.Phase)
						c.Seen("release", "terminated", liveOn(p.node), invClass(p.node))
						c.Count("op_terminated_event", 1)
						where = "terminated event " + p.key()
					} else {
						obj := p.assigned
						wasTerminated := p.state == c07Terminated
						if wasTerminated {
							obj = p.terminated
							c.Count("duplicate_or_stale_events", 1)
						}
						c.Op("delete event %s on %s (pod was %s)", p.key(), p.node.name, c07StateNames[p.state])
						cache.onPodDelete(obj.DeepCopy())
						c.Seen("release", "delete", wasTerminated, liveOn(p.node), invClass(p.node))
						release(p)
						c.Count("op_delete_event", 1)
						where = "delete event " + p.key()
					}
				case 4: // duplicate and stale events: none of them may change anything
					p := kit.Pick(r, pods)
					what := ""
					switch p.state {
					case c07Idle:
						// ghost: a pod object that was already terminated when first listed; its annotation names devices
						// that a live pod holds now (or that the name held in its previous life). Later it is deleted.
						if p.ghost == nil {
							var donor *c07Pod
							if r.Pct(70) {
								donor = pick(func(q *c07Pod) bool { return q.live() })
							}
							var alloc apiext.DeviceAllocations
							var node *c07Node
							if donor != nil {
								alloc, node = donor.alloc, donor.node
							} else if p.alloc != nil && p.node != nil {
								alloc, node = p.alloc, p.node
							}
							if alloc == nil {
								continue
							}
							g := &corev1.Pod{ObjectMeta: metav1.ObjectMeta{Namespace: p.ns, Name: p.name, UID: types.UID(fmt.Sprintf("%s-%s-g%d", p.ns, p.name, p.gen))}}
							g = c07Assign(c, g, node.name, alloc)
							g.Status.Phase = corev1.PodSucceeded
							p.ghost = g
							cache.onPodAdd(g.DeepCopy())
							what = fmt.Sprintf("add of already-terminated pod %s on %s carrying allocation %s", p.key(), node.name, c07Allocs(alloc))
						} else {
							if r.Bool() {
								cache.onPodUpdate(p.ghost.DeepCopy(), p.ghost.DeepCopy())
								what = fmt.Sprintf("update of terminated ghost %s", p.key())
							} else {
								cache.onPodDelete(p.ghost.DeepCopy())
								what = fmt.Sprintf("delete of terminated ghost %s (never held by the cache)", p.key())
								p.ghost = nil
								p.gen++
							}
						}
					case c07Reserved:
						switch r.Intn(3) {
						case 0:
							cache.onPodUpdate(p.unassigned.DeepCopy(), p.unassigned.DeepCopy())
							what = fmt.Sprintf("update of still-unassigned %s while reserved on %s", p.key(), p.node.name)
						case 1:
							cache.onPodAdd(p.unassigned.DeepCopy())
							what = fmt.Sprintf("add of still-unassigned %s while reserved on %s", p.key(), p.node.name)
						default:
							// the user deleted the pending pod; the binding cycle then fails and Unreserve follows
							cache.onPodDelete(p.unassigned.DeepCopy())
							what = fmt.Sprintf("delete of still-unassigned %s while reserved on %s (Unreserve follows)", p.key(), p.node.name)
							c.Op("stale: %s", what)
							checkAll("stale " + what)
							if p.cs != nil {
								pl.Unreserve(ctx, p.cs, p.unassigned, p.node.name)
							} else {
								nd := cache.getNodeDevice(p.node.name, false)
								nd.lock.Lock()
								nd.updateCacheUsed(c07CopyAllocs(p.alloc), p.unassigned, false)
								nd.lock.Unlock()
							}
							what = fmt.Sprintf("unreserve %s after its deletion", p.key())
							release(p)
						}
					case c07Bound:
						switch r.Intn(4) {
						case 3:
							// the pod is being deleted (deletionTimestamp set, containers still running): it holds its devices
							// until the delete event
							next := p.assigned.DeepCopy()
							if next.DeletionTimestamp == nil {
								ts := metav1.Unix(1700000000, 0)
								next.DeletionTimestamp = &ts
							}
							cache.onPodUpdate(p.assigned.DeepCopy(), next.DeepCopy())
							p.assigned = next
							what = fmt.Sprintf("update (terminating: deletionTimestamp set) of bound %s on %s", p.key(), p.node.name)
						case 0:
							cache.onPodAdd(p.assigned.DeepCopy())
							what = fmt.Sprintf("re-add of bound %s on %s", p.key(), p.node.name)
						case 1:
							cache.onPodUpdate(p.assigned.DeepCopy(), p.assigned.DeepCopy())
							what = fmt.Sprintf("update without change of bound %s on %s", p.key(), p.node.name)
						default:
							// a later version of the bound pod (label change); the annotation stays
							next := p.assigned.DeepCopy()
							if next.Labels == nil {
								next.Labels = map[string]string{}
							}
							next.Labels["rev"] = fmt.Sprint(op)
							cache.onPodUpdate(p.assigned.DeepCopy(), next.DeepCopy())
							p.assigned = next
							what = fmt.Sprintf("update (new label) of bound %s on %s", p.key(), p.node.name)
						}
					case c07Terminated:
						if r.Bool() {
							cache.onPodUpdate(p.terminated.DeepCopy(), p.terminated.DeepCopy())
							what = fmt.Sprintf("update of terminated %s on %s", p.key(), p.node.name)
						} else {
							cache.onPodAdd(p.terminated.DeepCopy())
							what = fmt.Sprintf("re-add of terminated %s on %s", p.key(), p.node.name)
						}
					}
					c.Op("stale: %s", what)
					c.Count("duplicate_or_stale_events", 1)
					c.Count("op_stale_event", 1)
					c.Seen("event", "stale", c07StateNames[p.state], strings.SplitN(what, " ", 3)[0])
					where = "stale " + what
				case 6: // preemption dry run: PreFilterExtensions RemovePod / AddPod on a clone of a pending pod's cycle state.
					// It is a what-if computation: whatever it does to the cycle state, the node's ledgers must not move
					// (in-use stays the sum of what the live pods hold; the allocate set stays what they hold).
					n := kit.Pick(r, nodes)
					var victims []*c07Pod
					for _, q := range pods {
						if q.live() && q.node == n {
							victims = append(victims, q)
						}
					}
					if len(victims) == 0 {
						continue
					}
					kit.Shuffle(r, victims)
					if !r.Pct(50) {
						victims = victims[:r.Range(1, len(victims))]
					}
					sh := c07GenShape(r, n)
					pre := c07NewPodObj(&c07Pod{name: fmt.Sprintf("preemptor-%d", op)}, sh)
					cs := framework.NewCycleState()
					if _, st := pl.PreFilter(ctx, cs, pre, nil); !st.IsSuccess() {
						c.Harness("PreFilter rejected the generated request %s %s: %v", sh.class, c07RL(sh.requests), st.Message())
					}
					dry := cs.Clone()
					nodeInfo, err := pl.handle.SnapshotSharedLister().NodeInfos().Get(n.name)
					if err != nil {
						c.Harness("snapshot has no node %s: %v", n.name, err)
					}
					c.Op("preemption dry run on %s for %s %s: %d victim(s)", n.name, sh.class, c07RL(sh.requests), len(victims))
					c.Count("op_preemption_dry_run", 1)
					if len(victims) >= 3 {
						c.Count("dry_runs_with_3plus_victims", 1)
					}
					seenDev := map[c07DevKey]int{}
					shared := false
					removed := map[*c07Pod]bool{}
					infos := map[*c07Pod]*framework.PodInfo{}
					for i, q := range victims {
						obj := q.assigned
						if obj == nil {
							obj = c07Assign(c, q.unassigned, n.name, q.alloc) // the assumed pod of the scheduler cache
						}
						pi, err := framework.NewPodInfo(obj.DeepCopy())
						if err != nil {
							c.Harness("NewPodInfo: %v", err)
						}
						infos[q] = pi
						for t, as := range q.alloc {
							for _, a := range as {
								k := c07DevKey{t, int(a.Minor)}
								if seenDev[k] > 0 && i >= 2 {
									shared = true
								}
								seenDev[k]++
							}
						}
						st := pl.PreFilterExtensions().RemovePod(ctx, dry, pre, pi, nodeInfo)
						c.Op("  dry run RemovePod %s (%s) -> %v", q.key(), c07Allocs(q.alloc), st.IsSuccess())
						c.Count("dry_run_removepod_calls", 1)
						removed[q] = true
						checkAll("dry run RemovePod " + q.key())
					}
					if shared {
						c.Count("dry_runs_where_a_third_or_later_victim_shares_a_device_with_an_earlier_one", 1)
					}
					whatIf := func() (bool, string) {
						used := c07LiveUsed(pods, n)
						for q := range removed {
							for t, as := range q.alloc {
								for _, a := range as {
									for name, qty := range a.Resources {
										used[c07Key{t, int(a.Minor), name}] -= qty.MilliValue()
									}
								}
							}
						}
						fit := true
						for _, t := range c07Types {
							if w := sh.want[t]; w != nil {
								if e, _ := c07Eligible(n, t, w.per, used, nil, true); e < w.count {
									fit = false
								}
							}
						}
						return fit, ""
					}
					if r.Pct(60) {
						st := pl.Filter(ctx, dry, pre, nodeInfo)
						fit, _ := whatIf()
						c.Op("  dry run Filter -> %v [%s] (independent what-if count says fits=%v)", st.IsSuccess(), st.Message(), fit)
						c.Count("dry_run_filters", 1)
						// evidence only: the what-if decision is not an allocation
						if sh.plain && sh.partSpec == nil && !(n.part != "" && n.honor) {
							switch {
							case st.IsSuccess() && !fit:
								c.Count("converse_misses_dry_run_filter_passed_without_fit", 1)
							case !st.IsSuccess() && fit:
								c.Count("converse_misses_dry_run_filter_failed_with_fit", 1)
							default:
								c.Count("dry_run_filters_agreeing_with_what_if_count", 1)
							}
						}
						checkAll("dry run Filter")
					}
					for _, q := range victims {
						if r.Bool() {
							st := pl.PreFilterExtensions().AddPod(ctx, dry, pre, infos[q], nodeInfo)
							c.Op("  dry run AddPod %s -> %v", q.key(), st.IsSuccess())
							c.Count("dry_run_addpod_calls", 1)
							delete(removed, q)
							checkAll("dry run AddPod " + q.key())
						}
					}
					c.Seen("dry-run", sh.class, len(victims), shared, invClass(n))
					where = "preemption dry run"
				case 5: // inventory refresh
					n := kit.Pick(r, nodes)
					held := liveOn(n)
					switch {
					case !n.crLive:
						what := n.mutate(r, heldDev(n))
						n.crLive = true
						n.lastCR = n.buildCR()
						cache.onDeviceAdd(n.lastCR.DeepCopy())
						c.Op("inventory %s re-add (%s): %s", n.name, what, n.describe())
						c.Count("op_inventory_readd", 1)
					case r.Pct(10):
						cache.onDeviceDelete(n.lastCR.DeepCopy())
						n.crLive = false
						c.Op("inventory %s: Device object deleted", n.name)
						c.Count("op_inventory_delete", 1)
					default:
						what := n.mutate(r, heldDev(n))
						cr := n.buildCR()
						cache.onDeviceUpdate(n.lastCR.DeepCopy(), cr.DeepCopy())
						n.lastCR = cr
						c.Op("inventory %s update (%s): %s", n.name, what, n.describe())
						c.Count("op_inventory_update", 1)
					}
					if held > 0 {
						invWhileHeld = true
						c.Count("inventory_changes_while_pods_hold_devices", 1)
					}
					c.Seen("inventory", invClass(n), held)
					where = "inventory " + n.name
				}
				checkAll(where)
			}
			if granted && refused && invWhileHeld {
				c.NonTrivial()
			}
		})
}
