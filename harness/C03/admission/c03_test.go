//go:build verif

package elasticquota

// C03 monitor: quota admission never lets usage pass the quota's limit.
// See /verif/DESIGN.md section 4, C03 and /verif/HARNESS_GUIDE.md.
//
// What runs: a real Plugin (built by the package's own newPluginTestSuit + factory, informers never
// started, hook plugins none). Feature gates are at their defaults except that, in 12% of the cases
// each, ElasticQuotaIgnorePodOverhead, ElasticQuotaGuaranteeUsage and MultiQuotaTree are switched on
// for the case (process globals, restored when the case ends). The quota informer's store is fed by
// the harness before each quota handler call (the plugin's lister and namespace index read it). Quota, pod and node handlers are
// called directly; PreFilter / Reserve / Unreserve are called the way one scheduling cycle does.
//
// Causal rules of the generated histories (what the real system can produce):
//   * quota objects obey what the validating webhook admits with default gates: all quotas below one
//     top-level quota declare the same max dimensions; min keys are a subset of max keys and of the
//     parent's min keys; 0 <= min <= max; the children's mins sum to at most the parent's min;
//     parents exist (and are parent groups) before their children; pods live in leaf groups only;
//     no re-parenting (C01/C15). A leaf quota may be created LATE (after pods labelled with its name
//     have already been admitted through the default group) and may be deleted and re-created; the
//     webhook only lets a quota go that has no child quota and no pod labelled with it, so that is
//     the only deletion generated (the scheduler side does not move pods of a deleted quota anyway:
//     Plugin.migratePods has no caller);
//   * where a pod is accounted (the monitor's own rule, from the API documentation, not from the
//     manager's cache): in the quota its quota-name label names if that quota exists when the pod's
//     add event arrives (there is no namespace quota in these histories), otherwise in the default
//     group; a pod sitting in the default group whose label names a quota that exists meanwhile moves
//     to that quota, together with its assigned state, when Plugin.migrateDefaultQuotaGroupsPod (the
//     body of the plugin's periodic goroutine, called directly here) runs. Between the late creation
//     and that migration run no event and no scheduling attempt touches the pods waiting to be moved
//     (the real window is one second; what happens to such pods inside it is not C03's subject);
//   * quota updates also flip the allow-lent-resource label of any quota and the is-parent label of a
//     quota that has neither child quotas (planned ones included) nor pods labelled with it (what the
//     webhook admits); both are meta changes that send UpdateQuota through its tree rebuild;
//   * an assigned (reserved or bound) pod may be resized in place: an update event through the plugin's
//     pod handler, with a new resourceVersion, that changes nothing but spec.containers[].resources.
//     Growth by resize is not gated by any quota admission, so, like usage brought by a migration, it
//     is exempt from the "max not lowered" clause until usage is seen within max again; the recount
//     always uses the pod's latest object;
//   * "the pod's request" is the effective pod request of the Kubernetes API: max(sum of the app
//     containers, largest init container) plus the pod overhead (the overhead is left out when the
//     ElasticQuotaIgnorePodOverhead gate is on); the monitor computes it from the shape it generated;
//   * which quota a pod names: its quota-name label, else the quota that is named like the pod's
//     namespace and lives in it, else the quota whose namespaces annotation lists the namespace, else
//     the default group; pods labelled with the system group's name belong to the system group;
//   * with MultiQuotaTree some top-level quotas are roots of trees of their own (tree-id on every quota
//     of the subtree, is-root and total-resource on the root; the total changes by quota updates);
//     late creation / deletion stays in the default tree (moving a pod between trees at migration
//     goes through delete+add and is not C03's subject);
//   * a pod whose deletion was requested (deletionTimestamp, constant value) is not scheduled any more
//     and is not resized; it still gets its bind echo / roll-back / delete event;
//   * where the reported runtime quota of a group lies above its max (only seen with the
//     ElasticQuotaGuaranteeUsage gate) the statement does not decide an admission that fits the runtime
//     but not max (it names the runtime as the limit and concludes used <= max): no admission verdict
//     there in either direction (counter admitted_within_reported_runtime_above_max). With that gate on,
//     "limit <= max" does not hold, so the refined reading of the last clause (max not lowered since
//     usage was last within it) is not derivable: used <= max is then asserted only for a quota whose
//     max was never lowered in the whole history (the literal clause) and whose reported runtime was
//     never seen above max; the other cases are counted (converse_misses_used_above_*_under_guarantee_gate).
//     With the gate off runtime <= max holds and the refined reading is asserted as before;
//   * creating a quota over pods that are already running is, for the "max not lowered" clause, a
//     lowering of that quota's (and, for the usage it brings along, its ancestors') max from
//     "unlimited": usage above max found right after the migration is exempt until it is seen within
//     max again;
//   * a pod's add event (unassigned) is delivered before its first scheduling attempt; Reserve is
//     called only after a successful PreFilter of the same pod in the same cycle; between PreFilter
//     and Reserve only informer-side events can happen (other pod deleted, quota updated, node
//     changed), never another pod's Reserve (the scheduling cycle is serial); Unreserve only follows
//     Reserve; the bind echo (update carrying a node name) only follows Reserve; a pod is never
//     scheduled again while it is assigned; events of one object carry increasing resourceVersions;
//   * pods never arrive already assigned (that path bypasses admission and is outside the statement).
//
// Oracle (independent of the plugin's code path): around each PreFilter the monitor reads, through
// GroupQuotaManager.GetQuotaSummary (before the check, read-only) and RefreshRuntime (right after the
// check, twice; the monitor never refreshes the runtime on the plugin's behalf before a check), used /
// nonPreemptibleUsed / min / limit of the pod's group and of every ancestor, and evaluates the
// statement with plain int64 arithmetic on the request vector it generated itself:
//   admitted  => for the pod's group, for every ancestor when parent checking is on: used+request <=
//                limit in every declared dimension; non-preemptible pod: npUsed+request <= min;
//   rejected  => at least one of exactly these comparisons fails (nothing else may reject: no hook
//                plugins, default gates).
// Usage is additionally recomputed from the monitor's own pod list (shadow model) after every
// operation (also the groups' own request, the input of the runtime quota, is recounted from the live
// pods), so that an accounting slip cannot hide an over-admission, and used <= max is checked for
// every group in scope (leaf groups always, parent groups when parent checking is on) whose max was
// not lowered since usage was last within it.
//
// Signatures: C03/admit/over-own-limit, C03/admit/over-ancestor-limit, C03/admit/non-preemptible-over-min,
// C03/admit/already-over-limit-in-unrequested-dimension/{own,ancestor,np}, C03/reject/unjustified,
// C03/invariant/used-above-max, C03/used/shadow-mismatch[-nonpreemptible], C03/request/shadow-mismatch;
// the default group has its
// own C03/admit/over-own-limit/default-quota and C03/invariant/used-above-max/default-quota (reported
// without ending the case).

import (
	"context"
	"encoding/json"
	"fmt"
	"sort"
	"strings"
	"testing"
	"time"

	corev1 "k8s.io/api/core/v1"
	"k8s.io/apimachinery/pkg/api/resource"
	metav1 "k8s.io/apimachinery/pkg/apis/meta/v1"
	"k8s.io/apimachinery/pkg/types"
	k8sfeature "k8s.io/apiserver/pkg/util/feature"
	"k8s.io/klog/v2"
	fwktype "k8s.io/kube-scheduler/framework"
	"k8s.io/kubernetes/pkg/scheduler/framework"

	"github.com/koordinator-sh/koordinator/apis/extension"
	"github.com/koordinator-sh/koordinator/apis/thirdparty/scheduler-plugins/pkg/apis/scheduling/v1alpha1"
	koordfeatures "github.com/koordinator-sh/koordinator/pkg/features"
	"github.com/koordinator-sh/koordinator/pkg/scheduler/apis/config"
	frameworkexthelper "github.com/koordinator-sh/koordinator/pkg/scheduler/frameworkext/helper"
	kit "github.com/koordinator-sh/koordinator/pkg/verifkit"
)

func init() {
	klog.SetOutput(c03Discard{})
	klog.LogToStderr(false)
}

type c03Discard struct{}

func (c03Discard) Write(p []byte) (int, error) { return len(p), nil }

func c03Quiet() {
	var lv klog.Level
	_ = lv.Set("0")
}

// ---------------------------------------------------------------------------------------------
// quantities: everything the monitor computes is int64 in base units (cpu: milli-cores, memory:
// bytes, extended resources: pieces). All generated values are whole base units.

const (
	c03GPU        corev1.ResourceName = "example.com/gpu"
	c03FPGA       corev1.ResourceName = "example.com/fpga"
	c03Storage    corev1.ResourceName = corev1.ResourceEphemeralStorage
	c03Undeclared corev1.ResourceName = "example.com/undeclared"
)

// every dimension a quota may declare (node allocatable is generated over these)
var c03AllDims = []corev1.ResourceName{corev1.ResourceCPU, corev1.ResourceMemory, c03GPU, c03FPGA, c03Storage}

func c03Countable(d corev1.ResourceName) bool { return d == c03GPU || d == c03FPGA }

type c03Vec map[corev1.ResourceName]int64

func c03Qty(d corev1.ResourceName, v int64) resource.Quantity {
	switch d {
	case corev1.ResourceCPU:
		return *resource.NewMilliQuantity(v, resource.DecimalSI)
	case corev1.ResourceMemory:
		return *resource.NewQuantity(v, resource.BinarySI)
	}
	return *resource.NewQuantity(v, resource.DecimalSI)
}

func c03Val(d corev1.ResourceName, q resource.Quantity) int64 {
	if d == corev1.ResourceCPU {
		return q.MilliValue()
	}
	return q.Value()
}

func c03Get(rl corev1.ResourceList, d corev1.ResourceName) (int64, bool) {
	q, ok := rl[d]
	if !ok {
		return 0, false
	}
	return c03Val(d, q), true
}

func c03RL(v c03Vec) corev1.ResourceList {
	rl := corev1.ResourceList{}
	for d, x := range v {
		rl[d] = c03Qty(d, x)
	}
	return rl
}

func c03Dims(v c03Vec) []corev1.ResourceName {
	ds := make([]corev1.ResourceName, 0, len(v))
	for d := range v {
		ds = append(ds, d)
	}
	sort.Slice(ds, func(i, j int) bool { return ds[i] < ds[j] })
	return ds
}

func c03Str(v c03Vec) string {
	var sb strings.Builder
	sb.WriteString("{")
	for i, d := range c03Dims(v) {
		if i > 0 {
			sb.WriteString(" ")
		}
		fmt.Fprintf(&sb, "%s:%d", c03Short(d), v[d])
	}
	sb.WriteString("}")
	return sb.String()
}

func c03RLStr(rl corev1.ResourceList) string {
	v := c03Vec{}
	for d, q := range rl {
		v[d] = c03Val(d, q)
	}
	return c03Str(v)
}

func c03Short(d corev1.ResourceName) string {
	switch d {
	case corev1.ResourceCPU:
		return "cpu(m)"
	case corev1.ResourceMemory:
		return "mem"
	case c03GPU:
		return "gpu"
	case c03FPGA:
		return "fpga"
	case c03Storage:
		return "storage"
	case c03Undeclared:
		return "undeclared"
	}
	return string(d)
}

func c03Copy(v c03Vec) c03Vec {
	o := c03Vec{}
	for d, x := range v {
		o[d] = x
	}
	return o
}

func c03Has(ds []corev1.ResourceName, d corev1.ResourceName) bool {
	for _, x := range ds {
		if x == d {
			return true
		}
	}
	return false
}

func c03Min64(a, b int64) int64 {
	if a < b {
		return a
	}
	return b
}

func c03Max64(a, b int64) int64 {
	if a > b {
		return a
	}
	return b
}

// ---------------------------------------------------------------------------------------------
// world

type c03Quota struct {
	name, parent string
	isParent     bool
	allowLent    bool
	isDefault    bool   // one of the two built-in groups (default or system): outside runtime sharing, not updatable
	builtin      string // "default-quota" | "system-quota" | ""
	depth        int
	dims         []corev1.ResourceName // declared dimensions = keys of max (fixed for the case)
	minDims      []corev1.ResourceName // keys of min (fixed for the case)
	max, min     c03Vec
	weight       c03Vec // nil: no annotation (defaults to max)
	children     []string
	lowered      map[corev1.ResourceName]bool // max lowered in this dimension and used not seen within max since
	everExempt   map[corev1.ResourceName]bool // lowered[d] was set at least once in this history
	rtAboveMax   map[corev1.ResourceName]bool // the reported runtime was seen above max in this dimension
	tree         string                       // quota tree id ("" = the default tree); MultiQuotaTree gate
	treeRoot     bool                         // root quota of its tree: carries the tree's total resource
	treeTotal    c03Vec
	ignoreDefTr  bool
	nsName       bool   // the object lives in a namespace named like itself: label-less pods of that namespace belong to it
	annotNS      string // namespace listed in its namespaces annotation ("" = none)
	exists       bool   // the quota object currently exists (late quotas start absent)
	resized      bool   // a pod of its subtree was resized in place
	everLate     bool   // was created after the start of the history at least once
	deletions    int
	rv           int
	obj          *v1alpha1.ElasticQuota
}

const (
	c03Gone = iota
	c03Pending
	c03Reserved
	c03Bound
)

type c03Pod struct {
	name     string
	label    string // value of the quota-name label
	quota    string // group the pod is accounted in
	req      c03Vec // full request vector (may contain undeclared dimensions)
	np       bool
	state    int
	rv       int
	obj      *corev1.Pod
	attempts int
	// shape of the object: the request the statement speaks of is the effective pod request
	// max(sum of containers, largest init container) + overhead (overhead not counted when the
	// ElasticQuotaIgnorePodOverhead gate is on); req always holds that effective vector
	containers  []c03Vec
	inits       []c03Vec
	overhead    c03Vec
	via         string // how the pod names its quota: label | nsname | nsannot | none
	gen         int    // how often the name was used before (a name may be re-used with a new UID)
	terminating bool
}

// a constant, far from every clock: no component under check compares it with the time (default gates)
var c03DeletionTime = metav1.NewTime(time.Unix(1700000000, 0))

func (w *c03World) effective(p *c03Pod) c03Vec {
	e := c03Vec{}
	for _, cv := range p.containers {
		for d, v := range cv {
			e[d] += v
		}
	}
	for _, iv := range p.inits {
		for d, v := range iv {
			if v > e[d] {
				e[d] = v
			} else if _, ok := e[d]; !ok {
				e[d] = e[d] + 0
			}
		}
	}
	if !w.ignoreOverhead {
		for d, v := range p.overhead {
			e[d] += v
		}
	}
	return e
}

// shape spreads the wanted effective request over containers / init containers / overhead.
func (w *c03World) shape(p *c03Pod) {
	r := w.r
	t := c03Copy(p.req)
	p.containers, p.inits, p.overhead = []c03Vec{t}, nil, nil
	switch r.Weighted(62, 16, 11, 11) {
	case 1: // several containers
		n := r.Range(2, 3)
		p.containers = make([]c03Vec, n)
		for i := range p.containers {
			p.containers[i] = c03Vec{}
		}
		for _, d := range c03Dims(t) {
			left := t[d]
			for i := 0; i < n-1; i++ {
				part := r.Int63n(left + 1)
				if part > 0 || r.Bool() {
					p.containers[i][d] = part
				}
				left -= part
			}
			p.containers[n-1][d] = left
		}
		w.c.Count("pods_multi_container", 1)
	case 2: // an init container dominates the app containers
		app := c03Vec{}
		for _, d := range c03Dims(t) {
			app[d] = t[d] - r.Int63n(t[d]+1)
		}
		p.containers = []c03Vec{app}
		p.inits = []c03Vec{c03Copy(t)}
		if r.Bool() {
			small := c03Vec{}
			for _, d := range c03Dims(t) {
				small[d] = t[d] / 2
			}
			p.inits = append(p.inits, small)
		}
		w.c.Count("pods_init_container_dominant", 1)
	case 3: // pod overhead (RuntimeClass)
		p.overhead = c03Vec{}
		for _, d := range []corev1.ResourceName{corev1.ResourceCPU, corev1.ResourceMemory} {
			o := int64(r.Range(1, 250))
			if w.ignoreOverhead {
				p.overhead[d] = o // not part of the request
				continue
			}
			if v, ok := t[d]; ok && v > 0 {
				o = c03Min64(o, v)
				p.overhead[d] = o
				t[d] = v - o
			}
		}
		w.c.Count("pods_with_overhead", 1)
	}
	e := w.effective(p)
	for _, d := range c03Dims(p.req) {
		if e[d] != p.req[d] {
			w.c.Harness("pod shape of %s gives effective %s, wanted %s", p.name, c03Str(e), c03Str(p.req))
		}
	}
	p.req = e
}

func (w *c03World) shapeStr(p *c03Pod) string {
	s := "containers="
	for _, cv := range p.containers {
		s += c03Str(cv)
	}
	if len(p.inits) > 0 {
		s += " inits="
		for _, iv := range p.inits {
			s += c03Str(iv)
		}
	}
	if p.overhead != nil {
		s += " overhead=" + c03Str(p.overhead)
	}
	return s
}

type c03Node struct {
	name  string
	alloc c03Vec
	rv    int
	obj   *corev1.Node
}

type c03World struct {
	c              *kit.Case
	r              *kit.Rand
	pl             *Plugin
	runtimeOn      bool
	parentOn       bool
	quotas         map[string]*c03Quota
	order          []string // parents before children; default group last
	leaves         []string // leaf groups that take pods (without the default group)
	pods           []*c03Pod
	nextPod        int
	nodes          []*c03Node
	nextNode       int
	memScale       int64
	defSmall       bool
	sysSmall       bool
	ignoreOverhead bool // ElasticQuotaIgnorePodOverhead gate is on in this case
	multiTree      bool // MultiQuotaTree gate is on in this case
	guarantee      bool // ElasticQuotaGuaranteeUsage gate is on in this case
	wideAmounts    bool // zero / one-unit / milli / 64-bit-scale amounts are mixed in
	subsetDims     bool // children may declare a subset of their parent's dimensions (ElasticQuotaEnableUpdateResourceKey)
	maxDepth       int
	podCap         int
	lateMode       bool     // history with late-created / deleted / re-created quotas
	absent         []string // names of planned or deleted leaf quotas that do not exist right now
	// the default group's over-max state is reported once per case
	defReported bool
	accepted    int
	rejected    int
	boundary    int
}

var c03DimSets = [][]corev1.ResourceName{
	{corev1.ResourceCPU, corev1.ResourceMemory},
	{corev1.ResourceCPU, corev1.ResourceMemory},
	{corev1.ResourceCPU, corev1.ResourceMemory},
	{corev1.ResourceCPU, corev1.ResourceMemory, c03GPU},
	{corev1.ResourceCPU, corev1.ResourceMemory, c03GPU},
	{corev1.ResourceCPU},
	{corev1.ResourceCPU, c03GPU},
	{corev1.ResourceMemory},
	{c03GPU},
	{corev1.ResourceCPU, corev1.ResourceMemory, c03Storage, c03GPU},
	{corev1.ResourceCPU, corev1.ResourceMemory, c03GPU, c03FPGA, c03Storage},
}

func (w *c03World) genAmount(d corev1.ResourceName) int64 {
	r := w.r
	var v int64
	switch d {
	case corev1.ResourceCPU:
		v = 500 * int64(r.Range(2, 32))
	case corev1.ResourceMemory, c03Storage:
		v = w.memScale * int64(r.Range(2, 48))
	default:
		v = int64(r.Range(1, 8))
	}
	if w.wideAmounts && r.Pct(18) {
		// rare magnitudes: nothing at all, one base unit, sub-core milli amounts, 64-bit scale
		switch r.Intn(4) {
		case 0:
			return 0
		case 1:
			return 1
		case 2:
			if d == corev1.ResourceCPU {
				return int64(r.Range(1, 999))
			}
			return int64(r.Range(1, 3))
		default:
			if c03Countable(d) {
				return int64(r.Range(64, 4096))
			}
			if d == corev1.ResourceCPU {
				return (int64(1) << 38) + int64(r.Range(-1, 1))
			}
			return (int64(1) << 50) + int64(r.Range(-1, 1))
		}
	}
	if !c03Countable(d) && r.Pct(12) {
		if r.Bool() {
			v++
		} else {
			v--
		}
	}
	return v
}

// genTree decides the shape and the numbers of the quota tree (3-6 groups, depth <= 3).
func (w *c03World) genTree() {
	r := w.r
	budget := r.Range(3, 6)
	nTop := r.Range(1, 3)
	switch r.Weighted(72, 18, 10) {
	case 1: // large
		budget = r.Range(7, 12)
		nTop = r.Range(1, 5)
	case 2: // tiny
		budget = r.Range(1, 2)
		nTop = 1
	}
	if nTop > budget {
		nTop = budget
	}
	w.maxDepth = []int{3, 3, 3, 3, 3, 3, 3, 2, 4, 4, 5, 5, 6, 6}[r.Intn(14)]
	if w.maxDepth > 3 && budget < w.maxDepth+1 {
		budget = w.maxDepth + r.Range(1, 4) // room for one chain of that depth and some siblings
	}
	var all []*c03Quota
	newQ := func(parent *c03Quota) *c03Quota {
		q := &c03Quota{name: fmt.Sprintf("q%d", len(all)), exists: true, allowLent: !r.Pct(25), lowered: map[corev1.ResourceName]bool{}, max: c03Vec{}, min: c03Vec{}}
		if parent == nil {
			q.parent = extension.RootQuotaName
			q.depth = 1
			q.dims = kit.Pick(r, c03DimSets)
			q.minDims = q.dims
			if len(q.dims) > 1 && r.Pct(12) {
				q.minDims = q.dims[:len(q.dims)-1]
			}
		} else {
			q.parent = parent.name
			q.depth = parent.depth + 1
			q.dims = parent.dims
			q.minDims = parent.minDims
			if w.subsetDims && len(parent.dims) > 1 && r.Pct(45) {
				// the webhook (with ElasticQuotaEnableUpdateResourceKey) only asks for child keys within the parent's
				var ds []corev1.ResourceName
				for _, d := range parent.dims {
					if r.Pct(60) {
						ds = append(ds, d)
					}
				}
				if len(ds) == 0 {
					ds = []corev1.ResourceName{kit.Pick(r, parent.dims)}
				}
				q.dims = ds
				var ms []corev1.ResourceName
				for _, d := range parent.minDims {
					if c03Has(ds, d) {
						ms = append(ms, d)
					}
				}
				q.minDims = ms
			}
			parent.children = append(parent.children, q.name)
		}
		all = append(all, q)
		budget--
		return q
	}
	for i := 0; i < nTop; i++ {
		q := newQ(nil)
		q.isParent = r.Pct(65) || w.maxDepth > 3 && i == 0
	}
	for budget > 0 {
		var cands []*c03Quota
		for _, q := range all {
			if q.isParent && q.depth < w.maxDepth {
				cands = append(cands, q)
			}
		}
		if len(cands) == 0 {
			q := newQ(nil)
			q.isParent = budget > 0 && r.Pct(50)
			continue
		}
		p := kit.Pick(r, cands)
		if w.maxDepth > 3 && r.Pct(70) {
			for _, cand := range cands { // grow the deepest chain first
				if cand.depth > p.depth {
					p = cand
				}
			}
		}
		q := newQ(p)
		q.isParent = q.depth < w.maxDepth && budget > 0 && r.Pct(30+20*(w.maxDepth-3))
	}
	for _, q := range all {
		if q.isParent && len(q.children) == 0 {
			q.isParent = false
		}
	}
	byName := map[string]*c03Quota{}
	for _, q := range all {
		byName[q.name] = q
	}
	// numbers: parents first (all is in creation order, parents precede children)
	for _, q := range all {
		var par *c03Quota
		if q.parent != extension.RootQuotaName {
			par = byName[q.parent]
		}
		for _, d := range q.dims {
			if par != nil && r.Pct(50) {
				q.max[d] = c03Max64(1, par.max[d]/int64(r.Range(1, 3)))
			} else {
				q.max[d] = w.genAmount(d)
			}
		}
		for _, d := range q.minDims {
			hi := q.max[d]
			if par != nil {
				room := par.min[d]
				for _, sib := range par.children {
					if sib != q.name {
						room -= byName[sib].min[d] // later siblings still have 0
					}
				}
				hi = c03Min64(hi, c03Max64(0, room))
			}
			switch r.Intn(5) {
			case 0:
				q.min[d] = 0
			case 1:
				q.min[d] = hi
			case 2:
				q.min[d] = hi / 2
			case 3:
				q.min[d] = hi / 4
			default:
				q.min[d] = r.Int63n(hi + 1)
			}
		}
		if r.Pct(25) {
			q.weight = c03Vec{}
			for _, d := range q.dims {
				q.weight[d] = int64(r.Range(0, 5))
			}
		}
		if !q.isParent {
			switch r.Intn(6) {
			case 0:
				q.nsName = true
			case 1:
				q.annotNS = "team-" + q.name
			}
		}
		w.quotas[q.name] = q
		w.order = append(w.order, q.name)
		if !q.isParent {
			w.leaves = append(w.leaves, q.name)
		}
	}
}

func (w *c03World) quotaObj(q *c03Quota) *v1alpha1.ElasticQuota {
	q.rv++
	eq := &v1alpha1.ElasticQuota{
		ObjectMeta: metav1.ObjectMeta{
			Name:            q.name,
			Namespace:       map[bool]string{true: q.name, false: "c03"}[q.nsName],
			ResourceVersion: fmt.Sprint(q.rv),
			Labels: map[string]string{
				extension.LabelQuotaParent:       q.parent,
				extension.LabelQuotaIsParent:     fmt.Sprint(q.isParent),
				extension.LabelAllowLentResource: fmt.Sprint(q.allowLent),
			},
			Annotations: map[string]string{},
		},
		Spec: v1alpha1.ElasticQuotaSpec{Max: c03RL(q.max), Min: c03RL(q.min)},
	}
	if q.weight != nil {
		b, _ := json.Marshal(c03RL(q.weight))
		eq.Annotations[extension.AnnotationSharedWeight] = string(b)
	}
	if q.tree != "" {
		eq.Labels[extension.LabelQuotaTreeID] = q.tree
		if q.treeRoot {
			eq.Labels[extension.LabelQuotaIsRoot] = "true"
			eq.Labels[extension.LabelQuotaIgnoreDefaultTree] = fmt.Sprint(q.ignoreDefTr)
			b, _ := json.Marshal(c03RL(q.treeTotal))
			eq.Annotations[extension.AnnotationTotalResource] = string(b)
		}
	}
	if q.annotNS != "" {
		b, _ := json.Marshal([]string{q.annotNS})
		eq.Annotations[extension.AnnotationQuotaNamespaces] = string(b)
	}
	return eq
}

// deliverQuota does what the quota informer does: its store (which the plugin's lister and namespace
// index read) is updated first, then the plugin's handler is called.
func (w *c03World) deliverQuota(kind string, old, cur *v1alpha1.ElasticQuota) {
	ix := w.pl.quotaInformer.GetIndexer()
	var err error
	switch kind {
	case "add":
		err = ix.Add(cur)
		w.pl.OnQuotaAdd(cur)
	case "update":
		err = ix.Update(cur)
		w.pl.OnQuotaUpdate(old, cur)
	case "delete":
		err = ix.Delete(cur)
		w.pl.OnQuotaDelete(cur)
	}
	if err != nil {
		w.c.Harness("quota informer store %s: %v", kind, err)
	}
}

func (w *c03World) genTreeTotal(q *c03Quota) c03Vec {
	t := c03Vec{}
	for _, d := range q.dims {
		v := q.max[d] / 100 * kit.Pick(w.r, c03Factors)
		if q.max[d] < 1<<40 {
			v = q.max[d] * kit.Pick(w.r, c03Factors) / 100
		}
		if v > 0 || w.r.Pct(70) {
			t[d] = v
		}
	}
	return t
}

func (w *c03World) quotaDesc(q *c03Quota) string {
	return fmt.Sprintf("%s parent=%s isParent=%v lent=%v max=%s min=%s weight=%s nsName=%v annotNS=%q tree=%q total=%s", q.name, q.parent, q.isParent, q.allowLent, c03Str(q.max), c03Str(q.min), c03Str(q.weight), q.nsName, q.annotNS, q.tree, c03Str(q.treeTotal))
}

func (q *c03Quota) exempt(d corev1.ResourceName) {
	q.lowered[d] = true
	if q.everExempt == nil {
		q.everExempt = map[corev1.ResourceName]bool{}
	}
	q.everExempt[d] = true
}

// chain returns the group and its ancestors below the root, leaf first.
func (w *c03World) chain(name string) []*c03Quota {
	var out []*c03Quota
	for name != extension.RootQuotaName && name != "" {
		q := w.quotas[name]
		if q == nil {
			w.c.Harness("unknown group %q in chain", name)
		}
		out = append(out, q)
		name = q.parent
	}
	return out
}

// ---------------------------------------------------------------------------------------------
// reading the plugin's state through its public API

type c03View struct {
	q      *c03Quota
	used   corev1.ResourceList
	npUsed corev1.ResourceList
	min    corev1.ResourceList
	max    corev1.ResourceList
	limit  corev1.ResourceList
	selfRq corev1.ResourceList
}

// view reads one group. The runtime quota is refreshed (a state-changing public call) only when
// refresh is set, i.e. only for the oracle's read right after an admission check; everywhere else the
// monitor stays read-only so that it cannot do the plugin's refreshing for it.
func (w *c03World) view(q *c03Quota, refresh bool) c03View {
	mgr := w.pl.GetGroupQuotaManagerForQuota(q.name)
	if mgr == nil {
		w.c.Harness("no quota manager for %s", q.name)
	}
	s, ok := mgr.GetQuotaSummary(q.name, false)
	if !ok || s == nil {
		w.c.Harness("group %s not known to the plugin", q.name)
	}
	if s.ParentName != q.parent {
		w.c.Harness("group %s: plugin reports parent %q, harness built %q", q.name, s.ParentName, q.parent)
	}
	v := c03View{q: q, used: s.Used, npUsed: s.NonPreemptibleUsed, min: s.Min, max: s.Max, selfRq: s.SelfRequest}
	switch {
	case !w.runtimeOn:
		v.limit = s.Max
	case refresh:
		v.limit = mgr.RefreshRuntime(q.name) // "its runtime quota", as reported by the public refresh API
	default:
		v.limit = s.Runtime // last computed value, possibly stale: only used to aim requests
	}
	return v
}

func c03SameRL(a, b corev1.ResourceList, dims []corev1.ResourceName) bool {
	for _, d := range dims {
		x, okx := c03Get(a, d)
		y, oky := c03Get(b, d)
		if okx != oky || x != y {
			return false
		}
	}
	return true
}

// shadow recomputes usage from the monitor's own pod list.
func (w *c03World) shadow() (used, np map[string]c03Vec) {
	used, np = map[string]c03Vec{}, map[string]c03Vec{}
	for _, n := range w.order {
		used[n], np[n] = c03Vec{}, c03Vec{}
	}
	for _, p := range w.pods {
		if p.state != c03Reserved && p.state != c03Bound {
			continue
		}
		leaf := w.quotas[p.quota]
		for _, q := range w.chain(p.quota) {
			for _, d := range leaf.dims {
				used[q.name][d] += p.req[d]
				if p.np {
					np[q.name][d] += p.req[d]
				}
			}
		}
	}
	return
}

// checkAll runs after every operation: reported usage == recomputed usage for every group, and no
// group in scope shows usage above a max that was not lowered.
func (w *c03World) checkAll(where string) {
	c := w.c
	used, np := w.shadow()
	selfReq := map[string]c03Vec{}
	for _, p := range w.pods {
		if p.state == c03Gone {
			continue
		}
		if selfReq[p.quota] == nil {
			selfReq[p.quota] = c03Vec{}
		}
		for _, d := range w.quotas[p.quota].dims {
			selfReq[p.quota][d] += p.req[d]
		}
	}
	for _, n := range w.order {
		q := w.quotas[n]
		v := w.view(q, false)
		for _, d := range q.dims {
			if !q.isParent {
				rr, _ := c03Get(v.selfRq, d)
				if rr != selfReq[n][d] {
					c.Fail("C03/request/shadow-mismatch", "%s: group %s reports own request %s=%d, its live pods request %d (reported %s)", where, n, c03Short(d), rr, selfReq[n][d], c03RLStr(v.selfRq))
				}
			}
			ru, _ := c03Get(v.used, d)
			if ru != used[n][d] {
				c.Fail("C03/used/shadow-mismatch", "%s: group %s reports used %s=%d, the admitted and not released pods of its subtree request %d (reported used %s)", where, n, c03Short(d), ru, used[n][d], c03RLStr(v.used))
			}
			rn, _ := c03Get(v.npUsed, d)
			if rn != np[n][d] {
				c.Fail("C03/used/shadow-mismatch-nonpreemptible", "%s: group %s reports non-preemptible used %s=%d, the admitted and not released non-preemptible pods of its subtree request %d", where, n, c03Short(d), rn, np[n][d])
			}
			rm, ok := c03Get(v.max, d)
			if !ok || rm != q.max[d] {
				c.Harness("%s: group %s reports max %s, harness configured %s", where, n, c03RLStr(v.max), c03Str(q.max))
			}
			if used[n][d] <= q.max[d] {
				q.lowered[d] = false
				continue
			}
			inScope := !q.isParent || w.parentOn
			if q.lowered[d] {
				c.Count("over_max_after_lowering_exempt", 1)
				continue
			}
			if !inScope {
				c.Count("parent_over_max_without_parent_check", 1)
				continue
			}
			sig := "C03/invariant/used-above-max"
			fail := c.Fail
			if w.guarantee && !q.isDefault {
				// With ElasticQuotaGuaranteeUsage the runtime quota is deliberately raised to the guaranteed
				// amount and may lie above max; "limit <= max", from which the refined reading (not lowered
				// since usage was last within max) follows, does not hold then. Only the literal clause is
				// asserted: a quota whose max was never lowered (nor usage brought in past admission) in the
				// whole history, and whose reported runtime was never seen above max.
				if q.everExempt[d] {
					c.Count("converse_misses_used_above_lowered_max_under_guarantee_gate", 1)
					continue
				}
				if q.rtAboveMax[d] {
					c.Count("converse_misses_used_above_max_runtime_above_max_under_guarantee_gate", 1)
					continue
				}
			}
			if q.isDefault {
				if w.defReported {
					continue
				}
				w.defReported = true
				sig += "/" + q.builtin
				fail = c.Report
			}
			fail(sig, "%s: group %s (isParent=%v) shows used %s=%d above max %d although its max was not lowered since usage was last within it (runtimeQuota=%v checkParent=%v)", where, n, q.isParent, c03Short(d), used[n][d], q.max[d], w.runtimeOn, w.parentOn)
		}
		c.Count("invariant_checks", 1)
	}
}

// ---------------------------------------------------------------------------------------------
// pods

func (w *c03World) podObj(p *c03Pod, nodeName string) *corev1.Pod {
	p.rv++
	labels := map[string]string{"app": "c03"}
	ns := "c03"
	switch p.via {
	case "nsname": // no label: the quota named like the pod's namespace (and living in it)
		ns = p.label
	case "nsannot": // no label: the quota whose namespaces annotation lists the pod's namespace
		ns = w.quotas[p.label].annotNS
	case "none": // no label, no quota for the namespace: default group
	default:
		labels[extension.LabelQuotaName] = p.label
	}
	if p.np {
		labels[extension.LabelPreemptible] = "false"
	}
	pod := &corev1.Pod{
		ObjectMeta: metav1.ObjectMeta{Name: p.name, Namespace: ns, UID: types.UID(fmt.Sprintf("uid-%s-%d", p.name, p.gen)), ResourceVersion: fmt.Sprintf("%d", 1000*p.gen+p.rv), Labels: labels},
		Spec:       corev1.PodSpec{NodeName: nodeName},
		Status:     corev1.PodStatus{Phase: corev1.PodPending},
	}
	for i, cv := range p.containers {
		pod.Spec.Containers = append(pod.Spec.Containers, corev1.Container{Name: fmt.Sprintf("c%d", i), Resources: corev1.ResourceRequirements{Requests: c03RL(cv)}})
	}
	for i, iv := range p.inits {
		pod.Spec.InitContainers = append(pod.Spec.InitContainers, corev1.Container{Name: fmt.Sprintf("i%d", i), Resources: corev1.ResourceRequirements{Requests: c03RL(iv)}})
	}
	if p.overhead != nil {
		pod.Spec.Overhead = c03RL(p.overhead)
	}
	if p.terminating {
		t := c03DeletionTime
		grace := int64(30)
		pod.DeletionTimestamp, pod.DeletionGracePeriodSeconds = &t, &grace
	}
	return pod
}

// schedulable: waiting pods the scheduler would still try (it skips pods that are being deleted)
func (w *c03World) schedulable() []*c03Pod {
	var out []*c03Pod
	for _, p := range w.pods {
		if p.state == c03Pending && !p.terminating {
			out = append(out, p)
		}
	}
	return out
}

func (w *c03World) live() []*c03Pod {
	var out []*c03Pod
	for _, p := range w.pods {
		if p.state != c03Gone {
			out = append(out, p)
		}
	}
	return out
}

func (w *c03World) inState(st int) []*c03Pod {
	var out []*c03Pod
	for _, p := range w.pods {
		if p.state == st {
			out = append(out, p)
		}
	}
	return out
}

// headroom is the smallest remaining room, per declared dimension, over the checks that apply to a
// pod of this group (may be negative). base "max" ignores the runtime quota.
func (w *c03World) headroom(leaf *c03Quota, np bool, useMax bool) c03Vec {
	h := c03Vec{}
	chain := w.chain(leaf.name)
	if !w.parentOn {
		chain = chain[:1]
	}
	for _, d := range leaf.dims {
		first := true
		for _, q := range chain {
			v := w.view(q, false)
			lim, ok := c03Get(v.limit, d)
			if useMax {
				lim, ok = q.max[d], true
			}
			if !ok {
				continue
			}
			u, _ := c03Get(v.used, d)
			if first || lim-u < h[d] {
				h[d] = lim - u
				first = false
			}
		}
		if np && c03Has(leaf.minDims, d) {
			v := w.view(leaf, false)
			u, _ := c03Get(v.npUsed, d)
			if first || leaf.min[d]-u < h[d] {
				h[d] = leaf.min[d] - u
				first = false
			}
		}
	}
	return h
}

func (w *c03World) newPod() *c03Pod { return w.newPodFor("") }

// newPodFor adds a pod; forced != "" names the (existing) quota it is labelled with.
func (w *c03World) newPodFor(forced string) *c03Pod {
	r := w.r
	p := &c03Pod{name: fmt.Sprintf("p%d", w.nextPod), req: c03Vec{}, state: c03Pending, via: "label"}
	w.nextPod++
	if r.Pct(10) {
		// a name that a deleted pod carried is used again (new UID), as a StatefulSet does
		taken := map[string]bool{}
		for _, o := range w.pods {
			if o.state != c03Gone {
				taken[o.name] = true
			}
		}
		for _, o := range w.pods {
			if o.state == c03Gone && !taken[o.name] {
				p.name, p.gen = o.name, o.gen+1
				w.c.Count("pod_name_reused", 1)
				break
			}
		}
	}
	defPct := 6
	if w.defSmall {
		defPct = 25
	}
	var future *c03Quota // the absent quota the label names, if any
	if forced != "" {
		p.quota, p.label = forced, forced
	} else if len(w.absent) > 0 && r.Pct(40) {
		// the quota the label names does not exist now: the pod is accounted in the default group
		p.label = kit.Pick(r, w.absent)
		p.quota = extension.DefaultQuotaName
		future = w.quotas[p.label]
		w.c.Count("pods_labelled_with_absent_quota", 1)
	} else if w.sysSmall && r.Pct(12) || r.Pct(2) {
		p.quota, p.label = extension.SystemQuotaName, extension.SystemQuotaName
	} else if r.Pct(defPct) || len(w.leaves) == 0 {
		p.quota = extension.DefaultQuotaName
		p.label = extension.DefaultQuotaName
		if r.Bool() {
			p.label = "no-such-quota"
		}
	} else {
		p.quota = kit.Pick(r, w.leaves)
		p.label = p.quota
	}
	leaf := w.quotas[p.quota]
	p.np = r.Pct(30)
	h := w.headroom(leaf, p.np, !w.runtimeOn || r.Bool())
	mode := r.Weighted(28, 22, 10, 25, 10, 5)
	for _, d := range leaf.dims {
		var v int64
		m := mode
		if r.Pct(25) {
			m = r.Weighted(28, 22, 10, 25, 10, 5) // mix modes across dimensions
		}
		if leaf.builtin == "default-quota" && !w.defSmall || leaf.builtin == "system-quota" && !w.sysSmall {
			m = 3
		}
		switch m {
		case 0:
			v = h[d] // exact fit
		case 1:
			v = h[d] + 1 // one unit over
		case 2:
			v = h[d] - 1
		case 3:
			v = w.genAmount(d) / int64(r.Range(2, 8))
		case 4:
			v = h[d] / 2
		default:
			v = 0
		}
		if v < 0 {
			v = 0
		}
		if v > 0 || r.Pct(50) {
			p.req[d] = v
		}
	}
	if future != nil {
		// sized against the quota it will be moved to, so that what the migration brings along lands
		// below, at and above that quota's max
		for _, d := range future.dims {
			if c03Has(leaf.dims, d) && w.defSmall && r.Pct(50) {
				continue // keep the request aimed at the default group's headroom
			}
			switch r.Intn(4) {
			case 0:
				p.req[d] = future.max[d] / int64(r.Range(1, 4))
			case 1:
				p.req[d] = future.max[d]/int64(r.Range(1, 3)) + 1
			default:
				p.req[d] = w.genAmount(d) / int64(r.Range(2, 8))
			}
		}
	}
	if r.Pct(25) {
		// a dimension the group does not declare must not count
		for _, d := range []corev1.ResourceName{corev1.ResourceMemory, c03GPU, c03Storage, c03Undeclared} {
			if !c03Has(leaf.dims, d) && (future == nil || !c03Has(future.dims, d)) && r.Bool() {
				p.req[d] = w.genAmount(d)
			}
		}
	}
	// how the pod names its quota
	if t := w.quotas[p.label]; t != nil && !t.isDefault {
		switch {
		case t.nsName && r.Pct(50):
			p.via = "nsname"
		case t.annotNS != "" && r.Pct(50):
			p.via = "nsannot"
		}
	} else if p.label == "no-such-quota" && r.Bool() {
		p.via = "none"
	}
	if p.via != "label" {
		w.c.Count("pods_without_quota_label_"+p.via, 1)
	}
	w.shape(p)
	w.pods = append(w.pods, p)
	p.obj = w.podObj(p, "")
	w.pl.OnPodAdd(p.obj)
	w.c.Op("pod-add %s(gen %d) via=%s quota=%s group=%s nonPreemptible=%v req=%s %s", p.name, p.gen, p.via, p.label, p.quota, p.np, c03Str(p.req), w.shapeStr(p))
	w.c.Count("op_pod_add", 1)
	if r.Pct(5) {
		w.pl.OnPodAdd(p.obj) // the add event delivered twice
		w.c.Op("pod-add %s again (duplicate event)", p.name)
		w.c.Count("op_pod_add_duplicate", 1)
	}
	return p
}

// resize delivers an in-place resize of an assigned pod through the plugin's pod update handler:
// only spec.containers[].resources changes.
func (w *c03World) resize(p *c03Pod) {
	c, r := w.c, w.r
	leaf := w.quotas[p.quota]
	used, _ := w.shadow()
	chain := w.chain(p.quota)
	oldReq := c03Copy(p.req)
	grew, shrank := false, false
	for _, d := range leaf.dims {
		if !r.Pct(70) {
			continue
		}
		cur := p.req[d]
		// room up to the tightest max on the way to the root
		room := int64(1) << 60
		for _, g := range chain {
			room = c03Min64(room, g.max[d]-used[g.name][d])
		}
		var nv int64
		switch r.Weighted(25, 10, 25, 12, 13, 15) {
		case 0:
			nv = cur / 2
		case 1:
			nv = cur - 1
		case 2:
			nv = cur + room // usage lands exactly on the tightest max
		case 3:
			nv = cur + room + 1
		case 4:
			nv = cur + 1
		default:
			nv = cur + w.genAmount(d)/int64(r.Range(2, 8))
		}
		if nv < 0 {
			nv = 0
		}
		// only container resources can be resized: the first container takes the difference
		c0 := p.containers[0][d] + nv - cur
		if c0 < 0 {
			c0 = 0
		}
		p.containers[0][d] = c0
	}
	if r.Pct(15) {
		p.containers[0][c03Undeclared] = w.genAmount(c03Undeclared) // must not count anywhere
	}
	p.req = w.effective(p)
	for _, d := range leaf.dims {
		if p.req[d] > oldReq[d] {
			grew = true
			for _, g := range chain {
				g.exempt(d) // growth that no admission check has seen; cleared when within max
			}
		} else if p.req[d] < oldReq[d] {
			shrank = true
		}
	}
	old := p.obj
	node := ""
	if p.state == c03Bound {
		node = "node-x"
	}
	p.obj = w.podObj(p, node)
	w.pl.OnPodUpdate(old, p.obj)
	for _, g := range chain {
		g.resized = true
	}
	c.Op("pod-resize %s (state=%d group=%s) req %s -> %s %s", p.name, p.state, p.quota, c03Str(oldReq), c03Str(p.req), w.shapeStr(p))
	c.Count("op_pod_resize", 1)
	if grew {
		c.Count("op_pod_resize_grow", 1)
	}
	if shrank {
		c.Count("op_pod_resize_shrink", 1)
	}
	w.checkAll("after in-place resize of " + p.name)
}

func (w *c03World) deletePod(p *c03Pod, why string) {
	w.c.Op("pod-delete %s (state=%d) %s", p.name, p.state, why)
	w.pl.OnPodDelete(p.obj)
	p.state = c03Gone
	w.c.Count("op_pod_delete", 1)
	if w.r.Pct(8) {
		w.c.Op("pod-delete %s again (duplicate event)", p.name)
		w.pl.OnPodDelete(p.obj)
	}
}

// ---------------------------------------------------------------------------------------------
// the scheduling attempt and its oracle

// c03LiteralUnrequestedDims: is an admission a violation when usage is already above a limit in a
// declared dimension of which the pod requests nothing (the admission does not push that dimension
// any further)? Per kind of comparison:
//
//	own      yes. Clause 1 spells the dimension set out for the pod's own quota: "usage plus the pod's
//	         request stays within the quota's current limit ... in every dimension the quota
//	         declares"; with usage already above the limit it does not stay within it, whatever the
//	         request (the unchanged code compares every dimension of used here).
//	ancestor no, counted only: the statement says "within every ancestor's limit" without naming the
//	         dimension set, and the ancestor walk masks to the names in the pod's request on purpose
//	         (maintainer decision).
//	np       no, counted only: "non-preemptible usage stays within min" does not name the dimension
//	         set either.
//
// Counter for all of them: admitted_already_over_zero_request_<kind>.
var c03LiteralUnrequestedDims = map[string]bool{"own": true, "ancestor": false, "np": false}

type c03Fail struct {
	kind   string // own | ancestor | np
	group  string
	dim    corev1.ResourceName
	strict bool // the pod requests a positive amount in this dimension
	// the comparison holds against the reported runtime but fails against max (reported runtime above
	// max, only seen with the ElasticQuotaGuaranteeUsage gate): the statement names the runtime as the
	// limit and in the same breath concludes used <= max, so it does not decide this admission. Such an
	// entry justifies a rejection, it never makes an admission a violation (the used<=max invariant
	// speaks for that case).
	onlyMax bool
	text    string
}

func (w *c03World) evaluate(p *c03Pod, views []c03View) (fails []c03Fail, exact, oneOver, scarce bool) {
	c := w.c
	leaf := w.quotas[p.quota]
	mark := func(kind string, sum, lim int64) {
		if sum == lim {
			exact = true
			c.Count("boundary_exact_"+kind, 1)
		}
		if sum == lim+1 {
			oneOver = true
			c.Count("boundary_one_over_"+kind, 1)
		}
	}
	for i, v := range views {
		kind := "own"
		if i > 0 {
			kind = "ancestor"
		}
		for _, d := range leaf.dims {
			lim, ok := c03Get(v.limit, d)
			if !ok {
				c.Count("limit_missing_dim", 1)
				continue
			}
			u, _ := c03Get(v.used, d)
			req := p.req[d]
			if lim < v.q.max[d] {
				scarce = true
			}
			if u+req > lim {
				fails = append(fails, c03Fail{kind: kind, group: v.q.name, dim: d, strict: req > 0,
					text: fmt.Sprintf("%s group %s: used %d + request %d > limit %d in %s", kind, v.q.name, u, req, lim, c03Short(d))})
			} else if u+req > v.q.max[d] {
				fails = append(fails, c03Fail{kind: kind, group: v.q.name, dim: d, strict: req > 0, onlyMax: true,
					text: fmt.Sprintf("%s group %s: used %d + request %d > max %d (reported runtime %d) in %s", kind, v.q.name, u, req, v.q.max[d], lim, c03Short(d))})
			}
			if req > 0 {
				mark(kind, u+req, lim)
			}
			if lim > v.q.max[d] {
				c.Count("limit_above_max", 1)
				if v.q.rtAboveMax == nil {
					v.q.rtAboveMax = map[corev1.ResourceName]bool{}
				}
				v.q.rtAboveMax[d] = true
			}
		}
	}
	if p.np {
		v := views[0]
		for _, d := range leaf.dims {
			m, ok := c03Get(v.min, d)
			if !ok {
				c.Count("min_missing_dim", 1)
				continue
			}
			u, _ := c03Get(v.npUsed, d)
			req := p.req[d]
			if u+req > m {
				fails = append(fails, c03Fail{kind: "np", group: v.q.name, dim: d, strict: req > 0,
					text: fmt.Sprintf("group %s: non-preemptible used %d + request %d > min %d in %s", v.q.name, u, req, m, c03Short(d))})
			}
			if req > 0 {
				mark("np", u+req, m)
			}
		}
	}
	return
}

func (w *c03World) readChain(p *c03Pod, refresh bool) []c03View {
	chain := w.chain(p.quota)
	if !w.parentOn {
		chain = chain[:1]
	}
	views := make([]c03View, 0, len(chain))
	for _, q := range chain {
		views = append(views, w.view(q, refresh))
	}
	return views
}

func c03ViewsStr(views []c03View) string {
	var parts []string
	for _, v := range views {
		parts = append(parts, fmt.Sprintf("%s[used=%s np=%s limit=%s min=%s]", v.q.name, c03RLStr(v.used), c03RLStr(v.npUsed), c03RLStr(v.limit), c03RLStr(v.min)))
	}
	return strings.Join(parts, " ")
}

func (w *c03World) attempt(p *c03Pod) {
	c, r := w.c, w.r
	leaf := w.quotas[p.quota]
	p.attempts++
	// usage and min are read before the check (read-only); the limit is read right after it, twice:
	// nothing but the check happened in between, so "the quota's current limit" is the same before and
	// after, and reading it afterwards keeps the monitor from refreshing the runtime on the plugin's behalf
	before := w.readChain(p, false)
	state := framework.NewCycleState()
	_, status := w.pl.PreFilter(context.TODO(), state, p.obj, nil)
	after := w.readChain(p, true)
	again := w.readChain(p, true)
	for i := range before {
		before[i].limit = after[i].limit
	}
	code := fwktype.Success
	msg := ""
	if status != nil {
		code, msg = status.Code(), status.Message()
	}
	c.Op("prefilter %s group=%s np=%v req=%s :: %s -> %s %q", p.name, p.quota, p.np, c03Str(p.req), c03ViewsStr(before), code, msg)
	c.Count("prefilter", 1)
	if code != fwktype.Success && code != fwktype.Unschedulable {
		c.Harness("PreFilter of %s returned %s %q: the harness set the plugin up wrongly", p.name, code, msg)
	}
	stable := true
	for i := range before {
		if !c03SameRL(again[i].limit, after[i].limit, leaf.dims) || !c03SameRL(before[i].used, after[i].used, leaf.dims) ||
			!c03SameRL(before[i].npUsed, after[i].npUsed, leaf.dims) || !c03SameRL(before[i].min, after[i].min, leaf.dims) {
			stable = false
		}
	}
	admitted := code == fwktype.Success
	if !stable {
		// the reported limit moved although nothing happened but the admission check itself: the
		// decision cannot be attributed to one snapshot (runtime refresh is C02's subject)
		c.Count("limit_unstable_no_verdict", 1)
	} else {
		fails, exact, oneOver, scarce := w.evaluate(p, before)
		c.Count("oracle_comparisons", 1)
		reason := "-"
		switch {
		case strings.Contains(msg, "non-preemptible"):
			reason = "np"
		case strings.Contains(msg, "quotaNameTopo"):
			reason = "ancestor"
		case strings.Contains(msg, "Insufficient quotas"):
			reason = "own"
		case !admitted:
			reason = "other"
		}
		if admitted {
			// strict failures first: they end the case (except in the default group, see below)
			sort.SliceStable(fails, func(i, j int) bool { return fails[i].strict && !fails[j].strict })
			for _, f := range fails {
				if f.onlyMax {
					c.Count("admitted_within_reported_runtime_above_max", 1)
					continue
				}
				sig := map[string]string{"own": "C03/admit/over-own-limit", "ancestor": "C03/admit/over-ancestor-limit", "np": "C03/admit/non-preemptible-over-min"}[f.kind]
				fail := c.Fail
				if !f.strict {
					// usage is already above the limit in a declared dimension the pod asks nothing of.
					// The statement read literally ("usage plus the pod's request stays within the limit
					// in every dimension the quota declares") forbids the admission; the admission does
					// not push usage any further, though. Own narrow signature, case continues.
					k := f.kind
					if leaf.isDefault {
						k += "_default_quota"
					}
					c.Count("admitted_already_over_zero_request_"+k, 1)
					if !c03LiteralUnrequestedDims[f.kind] {
						continue
					}
					sig = "C03/admit/already-over-limit-in-unrequested-dimension/" + f.kind
					fail = c.Report
				}
				if leaf.isDefault {
					// narrow signature of its own, and the case goes on, so that a finding in the default
					// group does not switch off the monitoring of all other groups
					sig = "C03/admit/over-own-limit/" + leaf.builtin
					fail = c.Report
				}
				fail(sig, "pod %s (request %s, nonPreemptible=%v) was admitted to group %s although %s (runtimeQuota=%v checkParent=%v); state at the check (usage read before it, limit read right after it): %s",
					p.name, c03Str(p.req), p.np, p.quota, f.text, w.runtimeOn, w.parentOn, c03ViewsStr(before))
			}
			w.accepted++
			c.Count("accepted", 1)
			if exact {
				c.Count("boundary_exact_fit_admitted", 1)
			}
		} else {
			if len(fails) == 0 {
				c.Fail("C03/reject/unjustified", "pod %s (request %s, nonPreemptible=%v) was rejected from group %s with %q although every check the statement names passes (runtimeQuota=%v checkParent=%v); state at the check (usage read before it, limit read right after it): %s",
					p.name, c03Str(p.req), p.np, p.quota, msg, w.runtimeOn, w.parentOn, c03ViewsStr(before))
			}
			cited := false
			for _, f := range fails {
				if f.kind == reason {
					cited = true
				}
			}
			if !cited {
				c.Count("reject_cited_check_differs", 1)
			}
			w.rejected++
			c.Count("rejected", 1)
			c.Count("rejected_by_"+reason, 1)
			if oneOver {
				c.Count("boundary_one_over_rejected", 1)
			}
		}
		if exact || oneOver {
			w.boundary++
			c.Count("boundary_decisions", 1)
		}
		for _, v := range before {
			if v.q.resized {
				c.Count("attempts_after_resize_in_chain", 1)
				if exact || oneOver {
					c.Count("boundary_decisions_after_resize_in_chain", 1)
				}
				break
			}
		}
		if leaf.everLate {
			c.Count("attempts_after_migration", 1)
			if admitted {
				c.Count("accepted_after_migration", 1)
			} else {
				c.Count("rejected_after_migration", 1)
			}
			if exact || oneOver {
				c.Count("boundary_decisions_after_migration", 1)
			}
		}
		bclass := "far"
		if exact {
			bclass = "exact"
		} else if oneOver {
			bclass = "one-over"
		}
		if leaf.tree != "" {
			c.Count("attempts_in_separate_quota_tree", 1)
		}
		c.Seen(w.runtimeOn, w.parentOn, leaf.depth, len(leaf.dims), leaf.isDefault, leaf.tree != "", leaf.everLate, p.np, admitted, reason, bclass, scarce, p.attempts > 1)
	}
	if !admitted {
		if r.Pct(20) {
			w.deletePod(p, "(gave up after rejection)")
			w.checkAll("after deleting rejected pod " + p.name)
		}
		return
	}
	// informer-side events may land between the admission check and Reserve
	if r.Pct(12) {
		c.Count("event_between_check_and_reserve", 1)
		switch r.Intn(3) {
		case 0:
			w.quotaUpdate()
		case 1:
			w.nodeChange()
		default:
			var others []*c03Pod
			for _, o := range w.live() {
				if o != p {
					others = append(others, o)
				}
			}
			if len(others) > 0 {
				w.deletePod(kit.Pick(r, others), "(between check and reserve)")
			}
		}
	}
	st := w.pl.Reserve(context.TODO(), state, p.obj, "node-x")
	c.Op("reserve %s -> %v", p.name, st.IsSuccess())
	c.Count("reserve", 1)
	if !st.IsSuccess() {
		c.Harness("Reserve of %s failed: %s", p.name, st.Message())
	}
	p.state = c03Reserved
	w.checkAll("after reserve of " + p.name)
	if r.Pct(15) {
		w.unreserve(p, state)
	}
}

func (w *c03World) unreserve(p *c03Pod, state fwktype.CycleState) {
	if state == nil {
		state = framework.NewCycleState()
	}
	w.pl.Unreserve(context.TODO(), state, p.obj, "node-x")
	w.c.Op("unreserve %s", p.name)
	w.c.Count("unreserve", 1)
	p.state = c03Pending
	w.checkAll("after unreserve of " + p.name)
}

// ---------------------------------------------------------------------------------------------
// quota and node changes

func c03Remove(xs []string, x string) []string {
	var out []string
	for _, y := range xs {
		if y != x {
			out = append(out, y)
		}
	}
	return out
}

func (w *c03World) labelled(name string) (live, assigned int) {
	for _, p := range w.pods {
		if p.state != c03Gone && p.label == name {
			live++
			if p.state == c03Reserved || p.state == c03Bound {
				assigned++
			}
		}
	}
	return
}

// lateCreate creates (or re-creates) a quota whose name pods may already carry, through the plugin's
// quota add handler, and then runs the plugin's own migration of the default group's pods.
func (w *c03World) lateCreate(q *c03Quota) {
	c, r := w.c, w.r
	if q.deletions > 0 && r.Pct(50) {
		// re-created with other numbers (same dimensions, min untouched: its room under the parent is kept)
		for _, d := range q.dims {
			nv := w.genAmount(d)
			if c03Has(q.minDims, d) {
				nv = c03Max64(nv, q.min[d])
			}
			q.max[d] = nv
		}
	}
	live, assigned := w.labelled(q.name)
	q.exists, q.everLate = true, true
	q.obj = w.quotaObj(q)
	w.deliverQuota("add", nil, q.obj)
	// parents precede children, the default group stays last
	w.order = append(w.order[:len(w.order)-2], q.name, extension.DefaultQuotaName, extension.SystemQuotaName)
	w.leaves = append(w.leaves, q.name)
	w.absent = c03Remove(w.absent, q.name)
	c.Op("quota-add-late %s (deleted %d times before; %d live pods carry its name, %d of them assigned)", w.quotaDesc(q), q.deletions, live, assigned)
	if q.deletions > 0 {
		c.Count("quota_recreated", 1)
	} else {
		c.Count("late_quota_created", 1)
	}
	if live > 0 {
		c.Count("late_quota_created_over_pods", 1)
	}
	w.checkAll("after late creation of " + q.name + " (pods not migrated yet)")
	// things that may happen before the migration goroutine's next run, none touching a pod that waits
	// to be moved
	if r.Pct(35) {
		switch r.Intn(3) {
		case 0:
			w.quotaUpdate()
		case 1:
			w.nodeChange()
		default:
			if len(w.live()) < w.podCap+2 {
				np := w.newPodFor(q.name) // arrives after the quota: accounted there directly
				c.Count("pod_added_between_late_creation_and_migration", 1)
				_ = np
			}
		}
		w.checkAll("between late creation of " + q.name + " and migration")
	}
	// usage that arrives by migration was never admitted against this quota or its ancestors
	for _, g := range w.chain(q.name) {
		for _, d := range g.dims {
			g.exempt(d)
		}
	}
	w.pl.migrateDefaultQuotaGroupsPod()
	movedA, movedP := 0, 0
	for _, p := range w.pods {
		if p.state == c03Gone || p.quota != extension.DefaultQuotaName {
			continue
		}
		if t := w.quotas[p.label]; t != nil && t.exists && !t.isDefault {
			p.quota = p.label
			if p.state == c03Pending {
				movedP++
			} else {
				movedA++
			}
		}
	}
	if su, _ := w.shadow(); movedA > 0 {
		for _, d := range q.dims {
			if su[q.name][d] > q.max[d] {
				c.Count("migration_brought_usage_above_max", 1)
				break
			}
		}
	}
	c.Op("migrate-default-group-pods: %d assigned and %d unassigned pods now belong to their named quota", movedA, movedP)
	c.Count("migration_runs", 1)
	c.Count("pods_migrated_from_default_assigned", movedA)
	c.Count("pods_migrated_from_default_not_assigned", movedP)
	w.checkAll("after migration into " + q.name)
}

// deleteQuota removes a leaf quota the webhook would let go: no child quota, no pod labelled with it.
func (w *c03World) deleteQuota() bool {
	c, r := w.c, w.r
	var cands []*c03Quota
	for _, n := range w.leaves {
		q := w.quotas[n]
		if live, _ := w.labelled(n); live == 0 && len(w.leaves) >= 2 && q.tree == "" {
			cands = append(cands, q)
		}
	}
	if len(cands) == 0 {
		return false
	}
	q := kit.Pick(r, cands)
	w.deliverQuota("delete", nil, q.obj)
	q.exists = false
	q.deletions++
	w.order = c03Remove(w.order, q.name)
	w.leaves = c03Remove(w.leaves, q.name)
	w.absent = append(w.absent, q.name)
	c.Op("quota-delete %s", q.name)
	c.Count("quota_deleted", 1)
	w.checkAll("after deletion of quota " + q.name)
	return true
}

func (w *c03World) quotaUpdate() {
	c, r := w.c, w.r
	var names []string
	for _, n := range w.order {
		if !w.quotas[n].isDefault {
			names = append(names, n)
		}
	}
	if len(names) == 0 {
		return
	}
	q := w.quotas[kit.Pick(r, names)]
	used, np := w.shadow()
	old := q.obj
	kind := r.Weighted(25, 30, 25, 12, 8, 8, 4)
	what := ""
	if q.treeRoot && r.Pct(25) {
		kind = 7
	}
	if kind == 6 {
		// is-parent may only change on a quota without child quotas (planned ones count) and without pods
		live, _ := w.labelled(q.name)
		ok := len(q.children) == 0 && live == 0 && (q.isParent || len(w.leaves) >= 2)
		if !ok {
			kind = 5
		}
	}
	if kind == 5 || kind == 6 {
		for _, n := range w.order {
			if g := w.quotas[n]; g.isParent {
				for _, d := range g.dims {
					if used[n][d] > 0 {
						c.Count("quota_meta_change_with_assigned_pods_below_a_parent", 1)
						break
					}
				}
			}
		}
	}
	switch kind {
	case 7: // the capacity of a quota tree changes (the multi-tree counterpart of a node change)
		q.treeTotal = w.genTreeTotal(q)
		what = "tree-total " + c03Str(q.treeTotal)
	case 5: // meta change that is no parent change: UpdateQuota rebuilds the whole tree
		q.allowLent = !q.allowLent
		what = fmt.Sprintf("lent-flip ->%v", q.allowLent)
	case 6:
		q.isParent = !q.isParent
		if q.isParent {
			w.leaves = c03Remove(w.leaves, q.name)
		} else {
			w.leaves = append(w.leaves, q.name)
		}
		what = fmt.Sprintf("isparent-flip ->%v", q.isParent)
	case 0, 1: // max raised / lowered / set at the boundary
		d := kit.Pick(r, q.dims)
		oldMax := q.max[d]
		var nv int64
		if kind == 0 {
			nv = oldMax + c03Max64(1, w.genAmount(d)/int64(r.Range(1, 6)))
			what = "max-raise"
		} else {
			switch r.Intn(5) {
			case 0:
				nv = used[q.name][d] // exactly the current usage
			case 1:
				nv = used[q.name][d] - 1 // below usage: the group is now legitimately above max
			case 2:
				nv = used[q.name][d] + 1
			case 3:
				nv = oldMax - 1
			default:
				nv = oldMax - r.Int63n(oldMax/2+1)
			}
			what = "max-lower"
		}
		floor := int64(0)
		if c03Has(q.minDims, d) {
			floor = q.min[d] // the webhook refuses max < min
		}
		nv = c03Max64(nv, floor)
		if nv < oldMax {
			q.exempt(d)
		}
		q.max[d] = nv
		what += fmt.Sprintf(" %s %d->%d", c03Short(d), oldMax, nv)
	case 2: // min changed within what the webhook admits
		if len(q.minDims) == 0 {
			return
		}
		d := kit.Pick(r, q.minDims)
		lo := int64(0)
		for _, ch := range q.children {
			lo += w.quotas[ch].min[d]
		}
		hi := q.max[d]
		if q.parent != extension.RootQuotaName {
			par := w.quotas[q.parent]
			room := par.min[d]
			for _, sib := range par.children {
				if sib != q.name {
					room -= w.quotas[sib].min[d]
				}
			}
			hi = c03Min64(hi, room)
		}
		if hi < lo {
			return
		}
		var nv int64
		switch r.Intn(5) {
		case 0:
			nv = lo
		case 1:
			nv = hi
		case 2:
			nv = np[q.name][d] // non-preemptible usage exactly at min
		case 3:
			nv = np[q.name][d] + 1
		default:
			nv = lo + r.Int63n(hi-lo+1)
		}
		nv = c03Min64(c03Max64(nv, lo), hi)
		what = fmt.Sprintf("min %s %d->%d", c03Short(d), q.min[d], nv)
		q.min[d] = nv
	case 3: // shared weight
		q.weight = c03Vec{}
		for _, d := range q.dims {
			q.weight[d] = int64(r.Range(0, 6))
		}
		what = "weight " + c03Str(q.weight)
	default: // event that carries no change
		what = "no-change"
	}
	q.obj = w.quotaObj(q)
	w.deliverQuota("update", old, q.obj)
	c.Op("quota-update %s: %s", what, w.quotaDesc(q))
	c.Count("op_quota_"+strings.Fields(what)[0], 1)
}

func (w *c03World) nodeObj(n *c03Node) *corev1.Node {
	n.rv++
	return &corev1.Node{ObjectMeta: metav1.ObjectMeta{Name: n.name, ResourceVersion: fmt.Sprint(n.rv)}, Status: corev1.NodeStatus{Allocatable: c03RL(n.alloc)}}
}

func (w *c03World) genNodeAlloc(factorPct int64, share int64) c03Vec {
	// share of (sum of top-level max) * factor, per dimension
	a := c03Vec{}
	for _, d := range c03AllDims {
		var sum int64
		for _, n := range w.order {
			q := w.quotas[n]
			if q.parent == extension.RootQuotaName && !q.isDefault {
				sum += q.max[d]
			}
		}
		v := sum / share / 100 * factorPct
		if sum < 1<<40 {
			v = sum * factorPct / 100 / share
		}
		if d == corev1.ResourceCPU && v >= 500 {
			v = v / 500 * 500
		}
		if !c03Countable(d) && w.r.Pct(10) {
			v++
		}
		if v > 0 || w.r.Pct(70) {
			a[d] = v
		}
	}
	return a
}

var c03Factors = []int64{30, 60, 100, 100, 150, 300}

func (w *c03World) nodeChange() {
	c, r := w.c, w.r
	kind := r.Weighted(30, 25, 45)
	switch {
	case kind == 0 && len(w.nodes) < 6 || len(w.nodes) == 0:
		n := &c03Node{name: fmt.Sprintf("node%d", w.nextNode), alloc: w.genNodeAlloc(kit.Pick(r, c03Factors), int64(r.Range(1, 3)))}
		w.nextNode++
		n.obj = w.nodeObj(n)
		w.nodes = append(w.nodes, n)
		w.pl.OnNodeAdd(n.obj)
		c.Op("node-add %s alloc=%s", n.name, c03Str(n.alloc))
		c.Count("op_node_add", 1)
	case kind == 1:
		i := r.Intn(len(w.nodes))
		n := w.nodes[i]
		w.nodes = append(w.nodes[:i], w.nodes[i+1:]...)
		w.pl.OnNodeDelete(n.obj)
		c.Op("node-delete %s alloc=%s", n.name, c03Str(n.alloc))
		c.Count("op_node_delete", 1)
	default:
		n := kit.Pick(r, w.nodes)
		old := n.obj
		n.alloc = w.genNodeAlloc(kit.Pick(r, c03Factors), int64(r.Range(1, 3)))
		n.obj = w.nodeObj(n)
		w.pl.OnNodeUpdate(old, n.obj)
		c.Op("node-update %s alloc=%s", n.name, c03Str(n.alloc))
		c.Count("op_node_update", 1)
	}
}

// ---------------------------------------------------------------------------------------------
// plugin construction

type c03Suit struct {
	suit *pluginTestSuit
	made int
}

func (s *c03Suit) newPlugin(t *testing.T, c *kit.Case, mut func(a *config.ElasticQuotaArgs)) *Plugin {
	if s.suit == nil || s.made >= 64 {
		s.suit = newPluginTestSuit(t, nil)
		s.made = 0
		c03Quiet()
	}
	s.made++
	frameworkexthelper.ResetRegistrations()
	args := *s.suit.elasticQuotaArgs
	args.HookPlugins = nil
	mut(&args)
	p, err := s.suit.proxyNew(context.TODO(), &args, s.suit.Handle)
	if err != nil {
		c.Harness("plugin factory: %v", err)
	}
	pl, ok := p.(*Plugin)
	if !ok {
		c.Harness("plugin factory returned %T", p)
	}
	if n := len(pl.groupQuotaManager.GetHookPlugins()); n != 0 {
		c.Harness("%d hook plugins registered, want none", n)
	}
	return pl
}

// ---------------------------------------------------------------------------------------------

func TestVerifC03Admission(t *testing.T) {
	s := &c03Suit{}
	kit.Run(t, kit.Config{Property: "C03", Unit: "admission", Quick: 1200, Thorough: 36000,
		Rule: "case k runs configuration k%4 of EnableRuntimeQuota x EnableCheckParentQuota on a fresh real Plugin: random webhook-valid quota tree (mostly 3-6, also 1-2 and 7-12 groups, depth mostly <=3, up to 6; per-subtree dimension sets of 1-5 dimensions out of cpu/memory/ephemeral-storage/two extended resources, children optionally declaring a subset; lent/non-lent, weights; amounts on a 500m/Mi/Gi grid +-1, in 20% of the cases also 0, 1, sub-core milli and 2^38..2^50; optionally quota trees of their own with MultiQuotaTree) plus the default and the system group (finite max in 30% / 20% of the cases), 0-6 nodes sized 0.3x-3x of the top-level max sum, gates ElasticQuotaIgnorePodOverhead / ElasticQuotaGuaranteeUsage / MultiQuotaTree on in 12% of the cases each; pods with 1-3 containers, dominant init containers, overhead, quota named by label, by namespace name, by namespaces annotation or not at all, names re-used after deletion, duplicate add events, terminating pods; 5-30, mostly 50-150, rarely 300-450 attempts, 6/14/30 live pods; closed loop of 50-150 scheduling attempts (PreFilter -> Reserve -> sometimes Unreserve, retries of rejected pods) interleaved with pod deletions, bind echoes, stale updates, (in 35% of the histories) leaf quotas created late over pods that were admitted/bound/left pending through the default group + the plugin's migrateDefaultQuotaGroupsPod + further attempts against the new quota + deletion/re-creation of empty leaf quotas, in-place resizes of assigned pods through the plugin's pod update handler, max raised/lowered (also exactly to usage and one below), min and weight changes, allow-lent and is-parent flips (tree rebuild), node add/remove/resize, events between check and reserve; requests drawn at headroom, headroom+1, headroom-1; distinct = (config, leaf depth, #dims, default group?, late-created quota?, non-preemptible?, verdict, cited check, boundary class, limit<max?, retry?); non-trivial = case with an accepted and a rejected attempt and at least one decision within one unit of a limit"},
		func(c *kit.Case) {
			r := c.R
			w := &c03World{c: c, r: r, quotas: map[string]*c03Quota{}}
			cfg := c.K % 4
			w.runtimeOn = cfg&1 != 0
			w.parentOn = cfg&2 != 0
			w.memScale = kit.Pick(r, []int64{1, 1 << 20, 1 << 30})
			w.defSmall = r.Pct(30)
			w.sysSmall = r.Pct(20)
			w.wideAmounts = r.Pct(20)
			w.subsetDims = r.Pct(12)
			w.podCap = []int{14, 14, 14, 14, 14, 14, 14, 6, 30, 30}[r.Intn(10)]
			minScale := !r.Pct(25)
			w.lateMode = r.Pct(35)
			// feature gates are process globals: set for this case, restored when it ends (also on a violation)
			w.ignoreOverhead = r.Pct(12)
			w.multiTree = r.Pct(12)
			w.guarantee = r.Pct(12)
			guarantee := w.guarantee
			gates := map[string]bool{string(koordfeatures.ElasticQuotaIgnorePodOverhead): w.ignoreOverhead, string(koordfeatures.ElasticQuotaGuaranteeUsage): guarantee,
				string(koordfeatures.MultiQuotaTree): w.multiTree}
			if err := k8sfeature.DefaultMutableFeatureGate.SetFromMap(gates); err != nil {
				c.Harness("feature gates: %v", err)
			}
			defer func() {
				_ = k8sfeature.DefaultMutableFeatureGate.SetFromMap(map[string]bool{string(koordfeatures.ElasticQuotaIgnorePodOverhead): false, string(koordfeatures.ElasticQuotaGuaranteeUsage): false, string(koordfeatures.MultiQuotaTree): false})
			}()
			if w.ignoreOverhead {
				c.Count("cases_gate_ignore_pod_overhead", 1)
			}
			if guarantee {
				c.Count("cases_gate_guarantee_usage", 1)
			}
			w.genTree()
			if w.multiTree {
				// some top-level quotas are roots of quota trees of their own (own manager, own total resource)
				c.Count("cases_multi_tree", 1)
				n := 0
				for _, name := range w.order {
					q := w.quotas[name]
					if q.depth == 1 && (r.Bool() || n == 0) {
						n++
						q.tree, q.treeRoot, q.ignoreDefTr = "tree-"+q.name, true, r.Bool()
						q.treeTotal = w.genTreeTotal(q)
					} else if q.depth > 1 {
						q.tree = w.quotas[q.parent].tree
					}
				}
			}
			if w.lateMode {
				// 1-2 leaf quotas of the planned tree do not exist at the start (at least one leaf does)
				n := r.Range(1, 2)
				for i := 0; i < n && len(w.leaves) >= 2; i++ {
					name := kit.Pick(r, w.leaves)
					if w.quotas[name].tree != "" {
						continue // late quotas stay in the default tree (see header)
					}
					w.quotas[name].exists = false
					w.order = c03Remove(w.order, name)
					w.leaves = c03Remove(w.leaves, name)
					w.absent = append(w.absent, name)
				}
				c.Count("cases_with_late_quota", 1)
			}
			builtin := func(name, kind string, small bool) *c03Quota {
				g := &c03Quota{name: name, builtin: kind, parent: extension.RootQuotaName, isDefault: true, exists: true, depth: 1, allowLent: true,
					max: c03Vec{}, min: c03Vec{}, lowered: map[corev1.ResourceName]bool{}}
				// the configured max of a built-in group declares its dimensions: mostly cpu+memory
				g.dims = [][]corev1.ResourceName{{corev1.ResourceCPU, corev1.ResourceMemory}, {corev1.ResourceCPU, corev1.ResourceMemory}, {corev1.ResourceCPU, corev1.ResourceMemory},
					{corev1.ResourceCPU}, {corev1.ResourceCPU, corev1.ResourceMemory, c03GPU}}[r.Intn(5)]
				for _, d := range g.dims {
					switch {
					case small:
						g.max[d] = w.genAmount(d)
					case d == corev1.ResourceCPU:
						g.max[d] = 1 << 44
					case c03Countable(d):
						g.max[d] = 1 << 30
					default:
						g.max[d] = 1 << 58
					}
				}
				return g
			}
			def := builtin(extension.DefaultQuotaName, "default-quota", w.defSmall)
			sys := builtin(extension.SystemQuotaName, "system-quota", w.sysSmall)
			w.pl = s.newPlugin(t, c, func(a *config.ElasticQuotaArgs) {
				a.EnableRuntimeQuota = w.runtimeOn
				a.EnableCheckParentQuota = w.parentOn
				a.EnableMinQuotaScale = minScale
				a.DefaultQuotaGroupMax = c03RL(def.max)
				a.SystemQuotaGroupMax = c03RL(sys.max)
			})
			c.Op("gates %v", gates)
			c.Op("config runtimeQuota=%v checkParent=%v minScale=%v defaultGroupMax=%s systemGroupMax=%s memScale=%d wideAmounts=%v subsetDims=%v maxDepth=%d podCap=%d lateQuotas=%v",
				w.runtimeOn, w.parentOn, minScale, c03Str(def.max), c03Str(sys.max), w.memScale, w.wideAmounts, w.subsetDims, w.maxDepth, w.podCap, w.absent)
			if w.wideAmounts {
				c.Count("cases_wide_amounts", 1)
			}
			if w.subsetDims {
				c.Count("cases_subset_dims", 1)
			}
			depth := 0
			for _, q := range w.quotas {
				if q.depth > depth {
					depth = q.depth
				}
			}
			c.Count(fmt.Sprintf("cases_tree_depth_%d", depth), 1)
			switch nq := len(w.quotas); {
			case nq <= 2:
				c.Count("cases_tree_size_1_2", 1)
			case nq <= 6:
				c.Count("cases_tree_size_3_6", 1)
			default:
				c.Count("cases_tree_size_7_12", 1)
			}
			c.Count(fmt.Sprintf("cases_runtime_%v_parent_%v", w.runtimeOn, w.parentOn), 1)
			for _, n := range w.order {
				q := w.quotas[n]
				q.obj = w.quotaObj(q)
				w.deliverQuota("add", nil, q.obj)
				c.Op("quota-add %s", w.quotaDesc(q))
			}
			w.quotas[def.name] = def
			w.quotas[sys.name] = sys
			w.order = append(w.order, def.name, sys.name)
			nNodes := []int{1, 1, 2, 2, 3, 3, 0, 4, 5, 6}[r.Intn(10)]
			f := kit.Pick(r, c03Factors)
			for i := 0; i < nNodes; i++ {
				n := &c03Node{name: fmt.Sprintf("node%d", w.nextNode), alloc: w.genNodeAlloc(f, int64(nNodes))}
				w.nextNode++
				n.obj = w.nodeObj(n)
				w.nodes = append(w.nodes, n)
				w.pl.OnNodeAdd(n.obj)
				c.Op("node-add %s alloc=%s", n.name, c03Str(n.alloc))
			}
			w.checkAll("after setup")

			attempts := r.Range(50, 150)
			switch r.Weighted(90, 5, 5) {
			case 1:
				attempts = r.Range(300, 450)
				c.Count("cases_long_history", 1)
			case 2:
				attempts = r.Range(5, 30)
			}
			done := 0
			lateW, delW := 0, 0
			if w.lateMode {
				lateW, delW = 5, 2
			}
			for steps := 0; done < attempts && steps < 10*attempts; steps++ {
				if w.lateMode && len(w.absent) > 0 && done == attempts*2/3 {
					// do not let a history end with pods still waiting for their quota
					if live, _ := w.labelled(w.absent[0]); live > 0 {
						w.lateCreate(w.quotas[w.absent[0]])
					}
				}
				switch r.Weighted(55, 12, 5, 8, 3, 10, 7, lateW, delW, 5, 3) {
				case 0: // scheduling attempt: a waiting pod is retried, or a new pod arrives
					pend := w.schedulable()
					var p *c03Pod
					if len(pend) > 0 && (r.Pct(45) || len(w.live()) >= w.podCap) {
						p = kit.Pick(r, pend)
					} else if len(w.live()) < w.podCap {
						p = w.newPod()
					} else {
						w.deletePod(kit.Pick(r, w.live()), "(making room)")
						w.checkAll("after pod delete")
						continue
					}
					w.attempt(p)
					done++
				case 1:
					if l := w.live(); len(l) > 0 {
						var term []*c03Pod
						for _, p := range l {
							if p.terminating {
								term = append(term, p)
							}
						}
						if len(term) > 0 && r.Pct(60) {
							l = term
						}
						w.deletePod(kit.Pick(r, l), "")
						w.checkAll("after pod delete")
					}
				case 2: // late roll-back (e.g. bind failed)
					if l := w.inState(c03Reserved); len(l) > 0 {
						w.unreserve(kit.Pick(r, l), nil)
					}
				case 3: // bind echo: the informer reports the node name
					if l := w.inState(c03Reserved); len(l) > 0 {
						p := kit.Pick(r, l)
						old := p.obj
						p.obj = w.podObj(p, "node-x")
						w.pl.OnPodUpdate(old, p.obj)
						p.state = c03Bound
						c.Op("pod-bound-echo %s", p.name)
						c.Count("op_pod_bound_echo", 1)
						w.checkAll("after bind echo of " + p.name)
					}
				case 4: // update that changes nothing relevant (also: still unassigned after Reserve)
					if l := w.live(); len(l) > 0 {
						p := kit.Pick(r, l)
						old := p.obj
						node := ""
						if p.state == c03Bound {
							node = "node-x"
						}
						p.obj = w.podObj(p, node)
						w.pl.OnPodUpdate(old, p.obj)
						c.Op("pod-update-echo %s (state=%d)", p.name, p.state)
						c.Count("op_pod_update_echo", 1)
						w.checkAll("after update echo of " + p.name)
					}
				case 5:
					w.quotaUpdate()
					w.checkAll("after quota update")
				case 6:
					w.nodeChange()
					w.checkAll("after node change")
				case 7: // a quota is created late (or re-created), then the migration goroutine runs
					if len(w.absent) > 0 {
						q := w.quotas[kit.Pick(r, w.absent)]
						// mostly once pods carrying its name went through the default group
						if _, assigned := w.labelled(q.name); assigned > 0 || r.Pct(15) {
							w.lateCreate(q)
						}
					} else if r.Pct(30) {
						// nothing to create: the periodic migration still runs and must move nothing
						w.pl.migrateDefaultQuotaGroupsPod()
						c.Op("migrate-default-group-pods (nothing to move)")
						c.Count("migration_runs_idle", 1)
						w.checkAll("after idle migration run")
					}
				case 8:
					w.deleteQuota()
				case 9: // in-place resize of an assigned pod (mostly a bound one)
					l := w.inState(c03Bound)
					if len(l) == 0 || r.Pct(20) {
						l = append(l, w.inState(c03Reserved)...)
					}
					var ok []*c03Pod
					for _, p := range l {
						if !p.terminating {
							ok = append(ok, p)
						}
					}
					if len(ok) > 0 {
						w.resize(kit.Pick(r, ok))
					}
				case 10: // deletion requested: the pod is terminating (deletionTimestamp set) until its delete event
					var l []*c03Pod
					for _, p := range w.live() {
						if !p.terminating {
							l = append(l, p)
						}
					}
					if len(l) > 0 {
						p := kit.Pick(r, l)
						old := p.obj
						p.terminating = true
						node := ""
						if p.state == c03Bound {
							node = "node-x"
						}
						p.obj = w.podObj(p, node)
						w.pl.OnPodUpdate(old, p.obj)
						c.Op("pod-terminating %s (state=%d)", p.name, p.state)
						c.Count("op_pod_terminating", 1)
						w.checkAll("after " + p.name + " became terminating")
					}
				}
			}
			if w.accepted > 0 && w.rejected > 0 && w.boundary > 0 {
				c.NonTrivial()
			}
			if c.K < 2 {
				ops := c.Ops()
				if len(ops) > 14 {
					ops = ops[:14]
				}
				c.Sample(ops)
			}
		})
}
