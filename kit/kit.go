//go:build verif

// Package verifkit is the small runtime shared by all /verif monitors. It is injected into the
// koordinator module as the virtual package pkg/verifkit through `go test -overlay`; it is never
// committed to /repo. It has no dependency outside the standard library.
//
// It provides: a splittable deterministic PRNG (every case k of unit U of property P draws from
// seed ^ hash(P,U,k), so one case can be replayed alone), the case driver with panic capture and
// replay files, the evidence collectors (counters, distinct-state set, samples) and the result file
// read by /verif/bin/check.
package verifkit

import (
	"encoding/json"
	"fmt"
	"hash/fnv"
	"os"
	"path/filepath"
	"runtime/debug"
	"sort"
	"strconv"
	"strings"
	"sync"
	"sync/atomic"
	"testing"
	"time"
)

// ---------------------------------------------------------------------------------------------
// PRNG

type Rand struct{ s uint64 }

func NewRand(seed uint64) *Rand { return &Rand{s: seed} }

func (r *Rand) Uint64() uint64 {
	r.s += 0x9e3779b97f4a7c15
	z := r.s
	z = (z ^ (z >> 30)) * 0xbf58476d1ce4e5b9
	z = (z ^ (z >> 27)) * 0x94d049bb133111eb
	return z ^ (z >> 31)
}

// Intn returns a value in [0,n). n<=0 returns 0.
func (r *Rand) Intn(n int) int {
	if n <= 0 {
		return 0
	}
	return int(r.Uint64() % uint64(n))
}

// Range returns a value in [lo,hi] inclusive.
func (r *Rand) Range(lo, hi int) int {
	if hi <= lo {
		return lo
	}
	return lo + r.Intn(hi-lo+1)
}

func (r *Rand) Int63n(n int64) int64 {
	if n <= 0 {
		return 0
	}
	return int64(r.Uint64() % uint64(n))
}

func (r *Rand) Bool() bool { return r.Uint64()&1 == 1 }

// Pct is true with probability p percent.
func (r *Rand) Pct(p int) bool { return r.Intn(100) < p }

func (r *Rand) Float() float64 { return float64(r.Uint64()>>11) / float64(1<<53) }

// Perm returns a random permutation of 0..n-1.
func (r *Rand) Perm(n int) []int {
	p := make([]int, n)
	for i := range p {
		p[i] = i
	}
	for i := n - 1; i > 0; i-- {
		j := r.Intn(i + 1)
		p[i], p[j] = p[j], p[i]
	}
	return p
}

// Weighted picks an index according to integer weights.
func (r *Rand) Weighted(w ...int) int {
	t := 0
	for _, x := range w {
		t += x
	}
	if t <= 0 {
		return 0
	}
	v := r.Intn(t)
	for i, x := range w {
		if v < x {
			return i
		}
		v -= x
	}
	return len(w) - 1
}

// Fork derives an independent stream.
func (r *Rand) Fork() *Rand { return NewRand(r.Uint64()) }

func Pick[T any](r *Rand, xs []T) T {
	var z T
	if len(xs) == 0 {
		return z
	}
	return xs[r.Intn(len(xs))]
}

func Shuffle[T any](r *Rand, xs []T) {
	for i := len(xs) - 1; i > 0; i-- {
		j := r.Intn(i + 1)
		xs[i], xs[j] = xs[j], xs[i]
	}
}

func hashStr(s string) uint64 {
	h := fnv.New64a()
	h.Write([]byte(s))
	return h.Sum64()
}

// ---------------------------------------------------------------------------------------------
// driver

type Config struct {
	Property string // "C06"
	Unit     string // short name of this workload, unique within the property
	Quick    int    // number of cases in the quick tier
	Thorough int    // number of cases in the thorough tier
	// Rule describes how cases are generated and what makes one non-trivial/distinct (evidence).
	Rule string
	// Exhaustive: the unit enumerates a finite space completely (the body is then expected to use
	// c.K as the enumeration index and Quick/Thorough to be the size of the space).
	Exhaustive bool
}

type Violation struct {
	Sig    string `json:"sig"`
	Msg    string `json:"msg"`
	Replay string `json:"replay"`
	Case   int    `json:"case"`
	Count  int    `json:"count"`
	Panic  bool   `json:"panic,omitempty"`
}

type Result struct {
	Property    string           `json:"property"`
	Unit        string           `json:"unit"`
	Seed        uint64           `json:"seed"`
	Tier        string           `json:"tier"`
	Shard       string           `json:"shard"`
	Evaluations int              `json:"evaluations"`
	Nontrivial  int              `json:"nontrivial"`
	Distinct    []string         `json:"distinct"`
	Counters    map[string]int64 `json:"counters"`
	Samples     []any            `json:"samples"`
	Violations  []*Violation     `json:"violations"`
	HarnessErrs []string         `json:"harness_errors"`
	Rule        string           `json:"rule"`
	Exhaustive  bool             `json:"exhaustive"`
	WallS       float64          `json:"wall_s"`
	Done        bool             `json:"done"`
}

type run struct {
	mu        sync.Mutex
	cfg       Config
	seed      uint64
	tier      string
	outDir    string
	distinct  map[uint64]struct{}
	counters  map[string]int64
	samples   []any
	viol      map[string]*Violation
	harnErr   []string
	nontriv   int
	evals     int
	maxDist   int
	curFile   *os.File
	shardName string
}

// Case is the handle a workload body gets. All methods are safe for concurrent use.
type Case struct {
	K    int
	R    *Rand
	Tier string
	run  *run
	mu   sync.Mutex
	ops  []string
	nt   bool
	drop int
}

type violationPanic struct {
	sig, msg string
}

type harnessPanic struct{ msg string }

// Op appends one line to the case's operation log (kept for the replay file).
func (c *Case) Op(format string, a ...any) {
	c.mu.Lock()
	if len(c.ops) < 4000 {
		c.ops = append(c.ops, fmt.Sprintf(format, a...))
	} else {
		c.drop++
	}
	c.mu.Unlock()
}

// Fail reports a violation of the property and ends the case. sig is the narrow signature matched
// against known_findings.json.
func (c *Case) Fail(sig string, format string, a ...any) {
	panic(violationPanic{sig: sig, msg: fmt.Sprintf(format, a...)})
}

// Report records a violation without ending the case (used from goroutines other than the case's
// main goroutine, where a panic could not be caught by the driver).
func (c *Case) Report(sig string, format string, a ...any) {
	c.run.recordViolation(c, sig, fmt.Sprintf(format, a...), false)
}

// Harness reports a defect of the harness itself (never a verdict on koordinator): inconclusive.
func (c *Case) Harness(format string, a ...any) {
	panic(harnessPanic{msg: fmt.Sprintf(format, a...)})
}

// Count adds n to a named evidence counter.
func (c *Case) Count(name string, n int) {
	c.run.mu.Lock()
	c.run.counters[name] += int64(n)
	c.run.mu.Unlock()
}

// Seen records a distinct abstract state/decision (evidence: distinct_nontrivial).
func (c *Case) Seen(parts ...any) {
	h := hashStr(fmt.Sprint(parts...))
	c.run.mu.Lock()
	if len(c.run.distinct) < c.run.maxDist {
		c.run.distinct[h] = struct{}{}
	}
	c.run.mu.Unlock()
}

// Evals adds n inner evaluations (a case that loops over a sub-space counts each inner input).
func (c *Case) Evals(n int) {
	c.run.mu.Lock()
	c.run.evals += n
	c.run.mu.Unlock()
}

// NonTrivial marks this case as non-trivial by the unit's rule.
func (c *Case) NonTrivial() {
	c.mu.Lock()
	c.nt = true
	c.mu.Unlock()
}

// Sample offers a literal sample of what the case looked like (the first few are kept).
func (c *Case) Sample(v any) {
	c.run.mu.Lock()
	if len(c.run.samples) < 3 {
		c.run.samples = append(c.run.samples, v)
	}
	c.run.mu.Unlock()
}

// Ops returns a copy of the op log so far.
func (c *Case) Ops() []string {
	c.mu.Lock()
	defer c.mu.Unlock()
	return append([]string(nil), c.ops...)
}

func (r *run) recordViolation(c *Case, sig, msg string, isPanic bool) {
	r.mu.Lock()
	defer r.mu.Unlock()
	if v, ok := r.viol[sig]; ok {
		v.Count++
		return
	}
	name := fmt.Sprintf("replay-%s-%s-%s-%d.json", r.cfg.Property, r.cfg.Unit, sanitize(sig), c.K)
	path := filepath.Join(r.outDir, name)
	rep := map[string]any{
		"property": r.cfg.Property, "unit": r.cfg.Unit, "seed": r.seed, "tier": r.tier, "case": c.K,
		"sig": sig, "msg": msg, "ops": c.Ops(), "ops_dropped": c.drop, "panic": isPanic,
	}
	b, _ := json.MarshalIndent(rep, "", " ")
	_ = os.WriteFile(path, b, 0o644)
	r.viol[sig] = &Violation{Sig: sig, Msg: msg, Replay: path, Case: c.K, Count: 1, Panic: isPanic}
	fmt.Printf("VERIF-VIOLATION property=%s unit=%s sig=%s case=%d replay=%s :: %s\n", r.cfg.Property, r.cfg.Unit, sig, c.K, path, firstLine(msg))
}

func firstLine(s string) string {
	if i := strings.IndexByte(s, '\n'); i >= 0 {
		s = s[:i]
	}
	if len(s) > 400 {
		s = s[:400]
	}
	return s
}

func sanitize(s string) string {
	b := []byte(s)
	for i, ch := range b {
		ok := ch >= 'a' && ch <= 'z' || ch >= 'A' && ch <= 'Z' || ch >= '0' && ch <= '9' || ch == '-' || ch == '_' || ch == '.'
		if !ok {
			b[i] = '_'
		}
	}
	if len(b) > 80 {
		b = b[:80]
	}
	return string(b)
}

func envInt(name string, def int) int {
	if v := os.Getenv(name); v != "" {
		if n, err := strconv.Atoi(v); err == nil {
			return n
		}
	}
	return def
}

// Tier returns the current tier ("quick" or "thorough").
func Tier() string {
	if os.Getenv("VERIF_TIER") == "thorough" {
		return "thorough"
	}
	return "quick"
}

// Run executes the unit's cases. body is called once per case; it reports violations with c.Fail.
// A panic escaping koordinator code during a case is reported as a violation with signature
// "<Property>/panic/<top koordinator frame>"; a harness panic (c.Harness) as a harness error.
func Run(t *testing.T, cfg Config, body func(c *Case)) {
	start := time.Now()
	seed := uint64(envInt("VERIF_SEED", 1))
	tier := Tier()
	outDir := os.Getenv("VERIF_OUT")
	if outDir == "" {
		outDir = filepath.Join(os.TempDir(), "verif-out", cfg.Property)
	}
	_ = os.MkdirAll(outDir, 0o755)
	shardI, shardN := 0, 1
	if s := os.Getenv("VERIF_SHARD"); s != "" {
		fmt.Sscanf(s, "%d/%d", &shardI, &shardN)
		if shardN < 1 {
			shardN = 1
		}
	}
	n := cfg.Quick
	if tier == "thorough" {
		n = cfg.Thorough
	}
	if v := envInt("VERIF_CASES", 0); v > 0 && !cfg.Exhaustive {
		n = v
	}
	r := &run{cfg: cfg, seed: seed, tier: tier, outDir: outDir, distinct: map[uint64]struct{}{}, counters: map[string]int64{},
		viol: map[string]*Violation{}, maxDist: 400000, shardName: fmt.Sprintf("%d-%d", shardI, shardN)}
	cur, _ := os.OpenFile(filepath.Join(outDir, fmt.Sprintf("current-%s-%s.txt", cfg.Unit, r.shardName)), os.O_CREATE|os.O_RDWR|os.O_TRUNC, 0o644)
	r.curFile = cur
	defer func() {
		if cur != nil {
			cur.Close()
		}
	}()

	only := -1
	if p := os.Getenv("VERIF_REPLAY"); p != "" {
		b, err := os.ReadFile(p)
		if err != nil {
			t.Fatalf("replay file: %v", err)
		}
		var rep struct {
			Property, Unit, Tier string
			Seed                 uint64
			Case                 int
		}
		if err := json.Unmarshal(b, &rep); err != nil {
			t.Fatalf("replay file: %v", err)
		}
		if rep.Property != cfg.Property || rep.Unit != cfg.Unit {
			return // other unit
		}
		seed, r.seed, only = rep.Seed, rep.Seed, rep.Case
		if rep.Tier != "" {
			tier, r.tier = rep.Tier, rep.Tier
		}
	}
	if v := envInt("VERIF_ONLY_CASE", -1); v >= 0 {
		only = v
	}
	writeResult := func(done bool) {
		r.mu.Lock()
		res := Result{Property: cfg.Property, Unit: cfg.Unit, Seed: seed, Tier: tier, Shard: r.shardName, Evaluations: r.evals,
			Nontrivial: r.nontriv, Counters: r.counters, Samples: r.samples, HarnessErrs: r.harnErr, Rule: cfg.Rule,
			Exhaustive: cfg.Exhaustive && only < 0, WallS: time.Since(start).Seconds(), Done: done}
		for h := range r.distinct {
			res.Distinct = append(res.Distinct, strconv.FormatUint(h, 36))
		}
		sort.Strings(res.Distinct)
		sigs := make([]string, 0, len(r.viol))
		for s := range r.viol {
			sigs = append(sigs, s)
		}
		sort.Strings(sigs)
		for _, s := range sigs {
			res.Violations = append(res.Violations, r.viol[s])
		}
		r.mu.Unlock()
		b, _ := json.Marshal(res)
		tmp := filepath.Join(outDir, fmt.Sprintf("result-%s-%s.json.tmp", cfg.Unit, r.shardName))
		_ = os.WriteFile(tmp, b, 0o644)
		_ = os.Rename(tmp, strings.TrimSuffix(tmp, ".tmp"))
	}
	for k := 0; k < n; k++ {
		if only >= 0 && k != only {
			continue
		}
		if only < 0 && k%shardN != shardI {
			continue
		}
		if len(r.viol) >= 25 {
			break // enough distinct signatures; the run is a failure anyway
		}
		c := &Case{K: k, Tier: tier, run: r, R: NewRand(seed*0x9e3779b97f4a7c15 ^ hashStr(fmt.Sprintf("%s/%s/%d", cfg.Property, cfg.Unit, k)))}
		if cur != nil {
			cur.WriteAt([]byte(fmt.Sprintf("%-12d seed=%-12d tier=%-8s\n", k, seed, tier)), 0)
		}
		r.execute(c, body)
		r.mu.Lock()
		if len(r.samples) == 0 && len(c.ops) > 0 {
			// no explicit sample offered: keep the head of the first logged case as the literal sample
			n := len(c.ops)
			if n > 10 {
				n = 10
			}
			r.samples = append(r.samples, map[string]any{"case": c.K, "first_ops": append([]string(nil), c.ops[:n]...)})
		}
		r.evals++
		if c.nt {
			r.nontriv++
		}
		r.mu.Unlock()
	}
	writeResult(true)
	r.mu.Lock()
	nv, nh := len(r.viol), len(r.harnErr)
	r.mu.Unlock()
	fmt.Printf("VERIF-UNIT property=%s unit=%s tier=%s seed=%d shard=%s evaluations=%d nontrivial=%d distinct=%d violations=%d harness_errors=%d wall=%.1fs\n",
		cfg.Property, cfg.Unit, tier, seed, r.shardName, r.evals, r.nontriv, len(r.distinct), nv, nh, time.Since(start).Seconds())
	if only >= 0 {
		for _, v := range r.viol {
			t.Logf("replayed violation %s: %s", v.Sig, v.Msg)
		}
	}
}

func (r *run) execute(c *Case, body func(c *Case)) {
	defer func() {
		if e := recover(); e != nil {
			switch v := e.(type) {
			case violationPanic:
				r.recordViolation(c, v.sig, v.msg, false)
			case harnessPanic:
				r.mu.Lock()
				if len(r.harnErr) < 20 {
					r.harnErr = append(r.harnErr, fmt.Sprintf("case %d: %s", c.K, v.msg))
				}
				r.mu.Unlock()
				fmt.Printf("VERIF-HARNESS-ERROR property=%s unit=%s case=%d :: %s\n", r.cfg.Property, r.cfg.Unit, c.K, firstLine(v.msg))
			default:
				stack := string(debug.Stack())
				frame, inHarness := classifyPanic(stack)
				if inHarness {
					r.mu.Lock()
					if len(r.harnErr) < 20 {
						r.harnErr = append(r.harnErr, fmt.Sprintf("case %d: harness panic %v\n%s", c.K, e, stack))
					}
					r.mu.Unlock()
					fmt.Printf("VERIF-HARNESS-ERROR property=%s unit=%s case=%d :: panic in harness: %v at %s\n", r.cfg.Property, r.cfg.Unit, c.K, e, frame)
					return
				}
				r.recordViolation(c, fmt.Sprintf("%s/panic/%s", r.cfg.Property, frame), fmt.Sprintf("panic: %v\n%s", e, stack), true)
			}
		}
	}()
	body(c)
}

// classifyPanic finds the frame that raised the panic: the first frame after the runtime's panic
// frames. If that frame is in a zz_verif_ file or in verifkit the panic is the harness's own.
func classifyPanic(stack string) (frame string, inHarness bool) {
	lines := strings.Split(stack, "\n")
	// skip until the last "panic(" frame
	start := 0
	for i, l := range lines {
		if strings.HasPrefix(l, "panic(") || strings.HasPrefix(l, "runtime.") && strings.Contains(l, "panic") {
			start = i + 2
		}
	}
	for i := start; i+1 < len(lines); i += 2 {
		fn := lines[i]
		loc := strings.TrimSpace(lines[i+1])
		if strings.HasPrefix(fn, "runtime.") || strings.HasPrefix(fn, "runtime/") {
			continue
		}
		if p := strings.LastIndex(fn, "("); p > 0 {
			fn = fn[:p]
		}
		if j := strings.LastIndex(fn, "/"); j >= 0 {
			fn = fn[j+1:]
		}
		h := strings.Contains(loc, "zz_verif_") || strings.Contains(loc, "/pkg/verifkit/")
		return fn, h
	}
	return "unknown", false
}

// ---------------------------------------------------------------------------------------------
// yield points (schedule widening). Yield is a no-op unless a case enabled it.

var (
	yieldOn  int32
	yieldMu  sync.Mutex
	yieldR   *Rand
	yieldLog []string
)

func EnableYield(r *Rand) {
	yieldMu.Lock()
	yieldR = r
	yieldLog = yieldLog[:0]
	atomic.StoreInt32(&yieldOn, 1)
	yieldMu.Unlock()
}

// DisableYield stops yielding and returns the signature (hash) of the observed point sequence.
func DisableYield() string {
	yieldMu.Lock()
	defer yieldMu.Unlock()
	atomic.StoreInt32(&yieldOn, 0)
	s := strconv.FormatUint(hashStr(strings.Join(yieldLog, ",")), 36)
	return s
}

func Yield(point string) {
	if atomic.LoadInt32(&yieldOn) == 0 {
		return
	}
	yieldMu.Lock()
	if yieldOn == 0 {
		yieldMu.Unlock()
		return
	}
	v := yieldR.Intn(8)
	if len(yieldLog) < 4096 {
		yieldLog = append(yieldLog, point)
	}
	yieldMu.Unlock()
	yieldDo(v)
}
