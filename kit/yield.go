//go:build verif

package verifkit

import (
	"runtime"
	"time"
)

func yieldDo(v int) {
	switch {
	case v < 3:
		// no delay
	case v < 6:
		runtime.Gosched()
	case v < 7:
		time.Sleep(20 * time.Microsecond)
	default:
		time.Sleep(150 * time.Microsecond)
	}
}
