// lincheck checks recorded call/return histories of the descheduler's eviction accounting objects
// for linearizability with porcupine v1.3.0 against small sequential specifications.
//
// Input: every hist-*.json in -dir (written by the C16 monitors at the client boundary: call stamp
// taken before invoking, return stamp after the reply, one atomic counter as the clock).
// Output: a kit-format result file result-lincheck-0-1.json in -dir, replay files for illegal
// histories, one VERIF-VIOLATION line per illegal history class. A checker timeout is reported as
// a harness error (=> inconclusive), never as a violation or a pass.
package main

import (
	"encoding/json"
	"flag"
	"fmt"
	"os"
	"path/filepath"
	"sort"
	"time"

	"github.com/anishathalye/porcupine"
)

type Op struct {
	Proc int    `json:"proc"`
	Call int64  `json:"call"`
	Ret  int64  `json:"ret"`
	Op   string `json:"op"` // evict | allow | done | node | ns | total | reset | nodeexceeded
	Node string `json:"node"`
	NS   string `json:"ns"`
	Out  int64  `json:"out"` // bool as 0/1, counters as value
}

type History struct {
	Property string `json:"property"`
	Unit     string `json:"unit"`
	Kind     string `json:"kind"` // "limiter" | "podevictor"
	Case     int    `json:"case"`
	Seed     uint64 `json:"seed"`
	Tier     string `json:"tier"`
	CapNode  int64  `json:"cap_node"` // -1 unset
	CapNS    int64  `json:"cap_ns"`
	CapTotal int64  `json:"cap_total"`
	DryRun   bool   `json:"dry_run"`
	Ops      []Op   `json:"ops"`
	file     string
}

// state: counts per node / namespace / total, kept as a canonical string-keyed map copy.
type state struct {
	node  map[string]int64
	ns    map[string]int64
	total int64
}

func (s state) clone() state {
	c := state{node: map[string]int64{}, ns: map[string]int64{}, total: s.total}
	for k, v := range s.node {
		c.node[k] = v
	}
	for k, v := range s.ns {
		c.ns[k] = v
	}
	return c
}

func (s state) key() string {
	ks := make([]string, 0, len(s.node)+len(s.ns))
	for k, v := range s.node {
		if v != 0 {
			ks = append(ks, fmt.Sprintf("n:%s=%d", k, v))
		}
	}
	for k, v := range s.ns {
		if v != 0 {
			ks = append(ks, fmt.Sprintf("s:%s=%d", k, v))
		}
	}
	sort.Strings(ks)
	return fmt.Sprintf("%v t=%d", ks, s.total)
}

func b2i(b bool) int64 {
	if b {
		return 1
	}
	return 0
}

func model(h *History) porcupine.Model {
	allowed := func(s state, node, ns string) bool {
		if node != "" && h.CapNode >= 0 && s.node[node]+1 > h.CapNode {
			return false
		}
		if h.CapNS >= 0 && s.ns[ns]+1 > h.CapNS {
			return false
		}
		if h.CapTotal >= 0 && s.total+1 > h.CapTotal {
			return false
		}
		return true
	}
	inc := func(s state, node, ns string) state {
		c := s.clone()
		if node != "" {
			c.node[node]++
		}
		c.ns[ns]++
		c.total++
		return c
	}
	return porcupine.Model{
		Init: func() interface{} { return state{node: map[string]int64{}, ns: map[string]int64{}} },
		Step: func(st, in, out interface{}) (bool, interface{}) {
			s := st.(state)
			o := in.(Op)
			res := out.(int64)
			switch o.Op {
			case "evict": // PodEvictor.Evict in a fault-free history: succeeds iff every applicable count is below its cap
				ok := allowed(s, o.Node, o.NS)
				if res != b2i(ok) {
					return false, s
				}
				if ok && !h.DryRun {
					return true, inc(s, o.Node, o.NS)
				}
				return true, s
			case "allow":
				return res == b2i(allowed(s, o.Node, o.NS)), s
			case "done":
				return true, inc(s, o.Node, o.NS)
			case "node":
				return res == s.node[o.Node], s
			case "ns":
				return res == s.ns[o.NS], s
			case "total":
				return res == s.total, s
			case "nodeexceeded":
				return res == b2i(h.CapNode >= 0 && s.node[o.Node] >= h.CapNode), s
			case "reset":
				return true, state{node: map[string]int64{}, ns: map[string]int64{}}
			}
			return false, s
		},
		Equal: func(a, b interface{}) bool { return a.(state).key() == b.(state).key() },
		DescribeOperation: func(in, out interface{}) string {
			o := in.(Op)
			return fmt.Sprintf("%s(%s,%s)->%d", o.Op, o.Node, o.NS, out.(int64))
		},
	}
}

type violation struct {
	Sig    string `json:"sig"`
	Msg    string `json:"msg"`
	Replay string `json:"replay"`
	Case   int    `json:"case"`
	Count  int    `json:"count"`
}

func main() {
	dir := flag.String("dir", "", "directory holding hist-*.json")
	property := flag.String("property", "C16", "")
	timeout := flag.Duration("timeout", 60*time.Second, "per-history checker budget (exceeded => inconclusive)")
	flag.Parse()
	start := time.Now()
	files, _ := filepath.Glob(filepath.Join(*dir, "hist-*.json"))
	sort.Strings(files)
	viol := map[string]*violation{}
	var harnessErrs []string
	counters := map[string]int64{}
	distinct := map[string]struct{}{}
	var samples []interface{}
	evals := 0
	for _, f := range files {
		b, err := os.ReadFile(f)
		if err != nil {
			harnessErrs = append(harnessErrs, err.Error())
			continue
		}
		// a file holds one history per line
		dec := json.NewDecoder(bytesReader(b))
		for dec.More() {
			var h History
			if err := dec.Decode(&h); err != nil {
				harnessErrs = append(harnessErrs, fmt.Sprintf("%s: %v", f, err))
				break
			}
			h.file = f
			ops := make([]porcupine.Operation, 0, len(h.Ops))
			maxConc, open := 0, 0
			type ev struct {
				t    int64
				open bool
			}
			var evs []ev
			for _, o := range h.Ops {
				ops = append(ops, porcupine.Operation{ClientId: o.Proc, Input: o, Call: o.Call, Output: o.Out, Return: o.Ret})
				evs = append(evs, ev{o.Call, true}, ev{o.Ret, false})
			}
			sort.Slice(evs, func(i, j int) bool {
				if evs[i].t != evs[j].t {
					return evs[i].t < evs[j].t
				}
				return evs[i].open && !evs[j].open
			})
			for _, e := range evs {
				if e.open {
					open++
					if open > maxConc {
						maxConc = open
					}
				} else {
					open--
				}
			}
			res, _ := porcupine.CheckOperationsVerbose(model(&h), ops, *timeout)
			evals++
			counters["histories_"+h.Kind]++
			counters["ops_checked"] += int64(len(h.Ops))
			if int64(maxConc) > counters["max_concurrent_in_flight"] {
				counters["max_concurrent_in_flight"] = int64(maxConc)
			}
			if maxConc > 1 {
				counters["histories_with_overlap"]++
			}
			// interleaving signature: order of returns by process
			sig := ""
			byRet := append([]Op(nil), h.Ops...)
			sort.Slice(byRet, func(i, j int) bool { return byRet[i].Ret < byRet[j].Ret })
			for _, o := range byRet {
				sig += fmt.Sprintf("%d%s%d,", o.Proc, o.Op[:1], o.Out)
			}
			distinct[fmt.Sprintf("%s|%d|%d|%d|%s", h.Kind, h.CapNode, h.CapNS, h.CapTotal, sig)] = struct{}{}
			if len(samples) < 2 && maxConc > 1 {
				n := len(h.Ops)
				if n > 8 {
					n = 8
				}
				samples = append(samples, map[string]interface{}{"kind": h.Kind, "caps": []int64{h.CapNode, h.CapNS, h.CapTotal}, "first_ops": h.Ops[:n], "ops": len(h.Ops), "max_in_flight": maxConc})
			}
			switch res {
			case porcupine.Ok:
				counters["linearizable"]++
			case porcupine.Unknown:
				counters["checker_timeouts"]++
				harnessErrs = append(harnessErrs, fmt.Sprintf("porcupine timed out after %s on %s case %d (%d ops): inconclusive", *timeout, h.Unit, h.Case, len(h.Ops)))
			case porcupine.Illegal:
				sg := fmt.Sprintf("%s/linearizability/%s", *property, h.Kind)
				if v, ok := viol[sg]; ok {
					v.Count++
					continue
				}
				rp := filepath.Join(*dir, fmt.Sprintf("replay-%s-lincheck-%s-%d.json", *property, h.Kind, h.Case))
				rb, _ := json.MarshalIndent(map[string]interface{}{"property": *property, "unit": h.Unit, "seed": h.Seed, "tier": h.Tier, "case": h.Case,
					"sig": sg, "msg": "history is not linearizable against the capped-counter specification", "history": h}, "", " ")
				_ = os.WriteFile(rp, rb, 0o644)
				viol[sg] = &violation{Sig: sg, Msg: fmt.Sprintf("history of %s case %d (%d ops, caps node=%d ns=%d total=%d) is not linearizable against the capped-counter specification (porcupine: Illegal)", h.Unit, h.Case, len(h.Ops), h.CapNode, h.CapNS, h.CapTotal), Replay: rp, Case: h.Case, Count: 1}
				fmt.Printf("VERIF-VIOLATION property=%s unit=lincheck sig=%s case=%d replay=%s\n", *property, sg, h.Case, rp)
			}
		}
	}
	var dl []string
	for k := range distinct {
		dl = append(dl, fmt.Sprintf("%x", fnv(k)))
	}
	sort.Strings(dl)
	var vl []*violation
	for _, v := range viol {
		vl = append(vl, v)
	}
	sort.Slice(vl, func(i, j int) bool { return vl[i].Sig < vl[j].Sig })
	out := map[string]interface{}{
		"property": *property, "unit": "lincheck", "seed": 0, "tier": "", "shard": "0-1", "evaluations": evals, "nontrivial": int(counters["histories_with_overlap"]),
		"distinct": dl, "counters": counters, "samples": samples, "violations": vl, "harness_errors": harnessErrs,
		"rule": "offline porcupine check of every recorded history against the sequential capped-counter specification; distinct = (caps, order of returns by process and result); non-trivial = history with overlapping operations",
		"exhaustive": false, "wall_s": time.Since(start).Seconds(), "done": true,
	}
	b, _ := json.Marshal(out)
	_ = os.WriteFile(filepath.Join(*dir, "result-lincheck-0-1.json"), b, 0o644)
	fmt.Printf("lincheck: %d histories, %d illegal classes, %d timeouts\n", evals, len(viol), counters["checker_timeouts"])
}
