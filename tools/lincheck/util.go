package main

import (
	"bytes"
	hfnv "hash/fnv"
	"io"
)

func bytesReader(b []byte) io.Reader { return bytes.NewReader(b) }

func fnv(s string) uint64 {
	h := hfnv.New64a()
	h.Write([]byte(s))
	return h.Sum64()
}
