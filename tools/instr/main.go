// instr inserts verifkit.Yield("<name>") as the first statement of selected functions of one Go
// source file (DESIGN.md 2.3). It reads the CURRENT file from /repo and writes the instrumented copy
// elsewhere; bin/check overlays the copy over the original at build time. Function-entry insertion
// never changes semantics; Yield is a no-op unless a running case enabled it.
//
// -funcs takes a comma separated list of "Func" or "Recv.Method" names. Names that are not found are
// printed as "MISSING <name>" (coverage drops, the verdict is unaffected).
package main

import (
	"flag"
	"fmt"
	"go/ast"
	"go/parser"
	"go/printer"
	"go/token"
	"os"
	"strconv"
	"strings"
)

func recvName(fd *ast.FuncDecl) string {
	if fd.Recv == nil || len(fd.Recv.List) == 0 {
		return ""
	}
	t := fd.Recv.List[0].Type
	if s, ok := t.(*ast.StarExpr); ok {
		t = s.X
	}
	if ix, ok := t.(*ast.IndexExpr); ok {
		t = ix.X
	}
	if id, ok := t.(*ast.Ident); ok {
		return id.Name
	}
	return ""
}

func main() {
	in := flag.String("in", "", "input .go file")
	out := flag.String("out", "", "output .go file")
	funcs := flag.String("funcs", "", "comma separated function names (Func or Recv.Method)")
	flag.Parse()
	fset := token.NewFileSet()
	f, err := parser.ParseFile(fset, *in, nil, parser.ParseComments)
	if err != nil {
		fmt.Fprintln(os.Stderr, err)
		os.Exit(1)
	}
	want := map[string]bool{}
	for _, n := range strings.Split(*funcs, ",") {
		if n = strings.TrimSpace(n); n != "" {
			want[n] = false
		}
	}
	for _, d := range f.Decls {
		fd, ok := d.(*ast.FuncDecl)
		if !ok || fd.Body == nil {
			continue
		}
		name := fd.Name.Name
		full := name
		if r := recvName(fd); r != "" {
			full = r + "." + name
		}
		key := ""
		if _, ok := want[full]; ok {
			key = full
		} else if _, ok := want[name]; ok {
			key = name
		}
		if key == "" {
			continue
		}
		want[key] = true
		call := &ast.ExprStmt{X: &ast.CallExpr{
			Fun:  &ast.SelectorExpr{X: ast.NewIdent("verifkityield"), Sel: ast.NewIdent("Yield")},
			Args: []ast.Expr{&ast.BasicLit{Kind: token.STRING, Value: strconv.Quote(f.Name.Name + "." + full)}},
		}}
		fd.Body.List = append([]ast.Stmt{call}, fd.Body.List...)
	}
	imp := &ast.GenDecl{Tok: token.IMPORT, Specs: []ast.Spec{&ast.ImportSpec{
		Name: ast.NewIdent("verifkityield"),
		Path: &ast.BasicLit{Kind: token.STRING, Value: strconv.Quote("github.com/koordinator-sh/koordinator/pkg/verifkit")},
	}}}
	// the new import declaration must follow the existing ones
	idx := 0
	for i, d := range f.Decls {
		if g, ok := d.(*ast.GenDecl); ok && g.Tok == token.IMPORT {
			idx = i + 1
		}
	}
	f.Decls = append(f.Decls[:idx], append([]ast.Decl{imp}, f.Decls[idx:]...)...)
	o, err := os.Create(*out)
	if err != nil {
		fmt.Fprintln(os.Stderr, err)
		os.Exit(1)
	}
	defer o.Close()
	if err := printer.Fprint(o, fset, f); err != nil {
		fmt.Fprintln(os.Stderr, err)
		os.Exit(1)
	}
	for n, found := range want {
		if !found {
			fmt.Println("MISSING " + n)
		}
	}
}
