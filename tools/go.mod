module verif/tools

go 1.25.0

require github.com/anishathalye/porcupine v1.3.0
