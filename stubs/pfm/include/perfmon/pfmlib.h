/* Minimal stand-in for libpfm4's perfmon/pfmlib.h so that koordinator's perf_group cgo package
 * compiles in this sandbox (libpfm4 is not installed). None of the monitored code paths call it:
 * every function fails with PFM_ERR_NOTSUPP. Build plumbing of /verif, not part of koordinator. */
#ifndef VERIF_PFMLIB_STUB_H
#define VERIF_PFMLIB_STUB_H
#include <stddef.h>
#include <stdint.h>

typedef int pfm_err_t;
#define PFM_SUCCESS 0
#define PFM_ERR_NOTSUPP -1
#define PFM_PLM0 0x01
#define PFM_PLM3 0x08
typedef enum { PFM_OS_NONE = 0, PFM_OS_PERF_EVENT, PFM_OS_PERF_EVENT_EXT, PFM_OS_MAX } pfm_os_t;

pfm_err_t pfm_initialize(void);
void pfm_terminate(void);
pfm_err_t pfm_get_os_event_encoding(const char *str, int dfl_plm, pfm_os_t os, void *args);
#endif
